"""C05 - every entry point touches only the memory the caller declared.  Decided
(structural): write-side provenance for every asm kernel (stores only via declared
destinations / own stack frame), read-only kernels are store-free, loads only through
declared sources; no pointer derived from next_in is retained in persistent state.
NOT decided: bounds (pos+width <= len on every tail path)."""
import re
from common import Report, AnalysisBroken
import provenance, kernels, asmdb, facts, irrules
from provenance import base_tag
from asmflow import tag_name

UNDECIDED = ('BOUNDS: that every access stays inside [ptr, ptr+len) on every tail path, C array indexes, and that enough history is copied before a streaming call returns '
             '- these need relational numeric invariants over loop counters, masks and run-time table contents; goto-analyzer could not provide them and no other sound tool is in reach')

# family -> (stores allowed, loads allowed, rmw allowed)
ALLOW = {
    'ec_dot_prod': ({'STACK', 'DEST', 'DESTARR[]'}, {'TBL', 'SRCARR', 'SRCARR[]', 'DESTARR', 'STACK', 'GLOBAL'}, {'STACK'}),
    'ec_mad': ({'STACK', 'DEST', 'DESTARR[]'}, {'TBL', 'SRC', 'DESTARR', 'DESTARR[]', 'DEST', 'STACK', 'GLOBAL'}, {'STACK'}),
    'ec_mul': ({'STACK', 'DEST'}, {'TBL', 'SRC', 'STACK', 'GLOBAL'}, {'STACK'}),
    'raid_xor_gen': ({'STACK', 'ARRAY[]'}, {'ARRAY', 'ARRAY[]', 'STACK', 'GLOBAL'}, {'STACK'}),
    'raid_pq_gen': ({'STACK', 'ARRAY[]'}, {'ARRAY', 'ARRAY[]', 'STACK', 'GLOBAL'}, {'STACK'}),
    'raid_xor_check': ({'STACK'}, {'ARRAY', 'ARRAY[]', 'STACK', 'GLOBAL'}, {'STACK'}),
    'raid_pq_check': ({'STACK'}, {'ARRAY', 'ARRAY[]', 'STACK', 'GLOBAL'}, {'STACK'}),
    'mem_zero': ({'STACK'}, {'BUF', 'STACK', 'GLOBAL'}, {'STACK'}),
    'crc': ({'STACK'}, {'BUF', 'STACK', 'GLOBAL'}, {'STACK'}),
    'crc_copy': ({'STACK', 'DST'}, {'SRC', 'STACK', 'GLOBAL'}, {'STACK'}),
    'adler': ({'STACK'}, {'BUF', 'STACK', 'GLOBAL'}, {'STACK'}),
    'igzip_deflate': ({'STACK', 'STREAM', 'OUT', 'LEVELBUF'}, {'STREAM', 'NEXT_IN', 'HUFF', 'LEVELBUF', 'STACK', 'GLOBAL'}, {'STACK', 'STREAM', 'LEVELBUF'}),
    'igzip_decode': ({'STACK', 'STATE', 'OUT'}, {'STATE', 'NEXT_IN', 'OUT', 'STACK', 'GLOBAL'}, {'STACK', 'STATE'}),
    'igzip_encode_df': ({'STACK', 'OUT', 'BB'}, {'BB', 'ICF', 'HUFFICF', 'STACK', 'GLOBAL'}, {'STACK', 'BB'}),
    'igzip_gen_icf_map': ({'STACK', 'STREAM', 'LEVELBUF', 'MATCHLOOKUP'}, {'STREAM', 'NEXT_IN', 'LEVELBUF', 'MATCHLOOKUP', 'STACK', 'GLOBAL'}, {'STACK', 'LEVELBUF'}),
    'igzip_set_long': ({'STACK', 'MATCHLOOKUP'}, {'MATCHLOOKUP', 'NEXT_IN', 'STACK', 'GLOBAL'}, {'STACK', 'MATCHLOOKUP'}),
    'igzip_histogram': ({'STACK', 'HIST'}, {'HIST', 'NEXT_IN', 'STACK', 'GLOBAL'}, {'STACK', 'HIST'}),
    'igzip_hash': ({'STACK', 'HASHTBL'}, {'DICT', 'STACK', 'GLOBAL'}, {'STACK', 'HASHTBL'}),
    'igzip_heap': ({'STACK', 'HEAP'}, {'HEAP', 'STACK', 'GLOBAL'}, {'STACK', 'HEAP'}),
}
INPUT_TAGS = {'NEXT_IN', 'DICT', 'SRC', 'BUF'}
PERSISTENT = {'STREAM', 'STATE', 'LEVELBUF', 'BB', 'HIST', 'HASHTBL', 'HEAP', 'GLOBAL', 'MATCHLOOKUP'}


def check_c_loads(rep):
    """portable match finders: every multi-byte read of the input stays below start_in + avail_in"""
    import llir, irrules, enddist
    import c19
    R = rep.rule('M-ENDDIST-C', 'portable match finders (isal_deflate_body_base, isal_deflate_finish_base and their ICF counterparts): every load_le_u32/u64 of the input at pointer p satisfies p + width <= start_in + avail_in '
                 'where it executes - difference bounds to the end pointer from the dominating pointer comparisons, the constant look-ahead margins and the contract of compare258 (result <= max_length <= 258)', floor=4, unit='functions')
    mod = llir.library('default')
    zs = c19.field_offsets('struct isal_zstream', ['avail_in', 'next_in'])
    for fn in ('isal_deflate_body_base', 'isal_deflate_finish_base', 'isal_deflate_icf_body_hash_hist_base', 'isal_deflate_icf_finish_hash_hist_base'):
        f = mod.funcs.get(fn)
        if f is None:
            raise AnalysisBroken(fn + ' not found')
        R.instance()
        P = irrules.prov(mod, f)
        ends = []
        for i in f.all_insns():
            if i.op == 'getelementptr' and len(i.extra.get('idx', [])) == 1 and i.extra['basety'].strip() == 'i8':
                x = i.extra['idx'][0].split()[-1]
                if ('mem', ('param', 0, zs['avail_in'])) in P.deps(x) and ('ld', ('param', 0, zs['next_in']), 0) in P.atoms(i.ops[0]):
                    ends.append(i)
        if not ends:
            raise AnalysisBroken('%s: end_in = next_in + avail_in not found' % fn)
        ed = enddist.EndDist(mod, f, ends[0].dst).run()
        n = 0
        for i in f.all_insns():
            m = re.match(r'^load_(le|be)_u(\d+)', i.callee or '') if i.op == 'call' else None
            if not m:
                continue
            n += 1
            W = int(m.group(2)) // 8
            d = ed.d_eff(i.args[0][1], i.block)
            R.check(d is not None and d + W <= 0, mod.where(f, i), '%s: %d-byte read at a pointer that is only known to be %s the end of the input: it can reach %s bytes past start_in + avail_in' %
                    (fn, W, ('%d bytes below' % -d) if d is not None and d <= 0 else ('up to %d bytes beyond' % d if d is not None else 'somewhere relative to'), (d + W) if d is not None else 'an unknown number of'),
                    key='M-ENDDIST-C|%s|%d' % (fn, n), sample='%s: %d-byte read at <= end%+d' % (fn, W, d) if d is not None else None)
        if n < 2:
            raise AnalysisBroken('%s: expected the position and hash-update reads, found %d' % (fn, n))
    # compare258 itself reads up to max_length bytes at its second argument
    RC = rep.rule('M-COMPARE-BOUND', 'every compare258(str1, str2, max_length) call of the portable match finders reads at most up to the end of the input: max_length is the constant 258 under a dominating look-ahead '
                  'margin (covered by M-ENDDIST-C), or it is computed as end - str2 for the VERY pointer passed as str2 (pointer difference whose subtrahend is that argument): a bound taken from another pointer (the '
                  'start of the chunk) lets the comparison run past the input', floor=2, unit='compare258 calls')
    for fn in ('isal_deflate_body_base', 'isal_deflate_finish_base', 'isal_deflate_icf_body_hash_hist_base', 'isal_deflate_icf_finish_hash_hist_base', 'isal_deflate_icf_finish_hash_map_base', 'gen_icf_map_h1_base'):
        f = mod.funcs.get(fn)
        if f is None:
            continue
        for i in f.all_insns():
            if i.op != 'call' or re.sub(r'\.\d+$', '', i.callee or '') != 'compare258':
                continue
            ml = i.args[2][1]
            if re.match(r'^\d+$', ml):
                continue
            RC.instance()
            d = f.defs.get(irrules._strip(f, ml))
            ok, why = False, 'max_length is not a pointer difference'
            if d is not None and d.op == 'sub':
                a, b = f.defs.get(d.ops[0]), f.defs.get(d.ops[1])
                if a is not None and b is not None and a.op == 'ptrtoint' and b.op == 'ptrtoint':
                    ok = b.ops[0] == i.args[1][1]
                    why = 'max_length is %s - %s, but the bytes are read at %s' % (a.ops[0], b.ops[0], i.args[1][1])
            RC.check(ok, mod.where(f, i), '%s: %s: compare258 may read up to that many bytes beyond the position it starts at, i.e. past start_in + avail_in' % (fn, why), key='M-COMPARE-BOUND|%s|%s' % (fn, i.line or 0),
                     sample='%s: max_length = end_in - str2' % fn)


def check_hashfill_bound(rep, mod):
    """the portable hash fillers walk a dictionary of dict_len bytes and hash the 4-byte word at every position that still has 4 bytes"""
    R = rep.rule('M-HASHFILL-BOUND', 'isal_deflate_hash_base / isal_deflate_hash_mad_base: the loop "while (next_in <=/< end)" with end = dict + dict_len - K reads W bytes at next_in (width of the load helper called '
                 'on the cursor); K >= W for "<=" and K >= W - 1 for "<": the last word hashed ends at dict + dict_len, no byte behind the dictionary (stale buffer contents, or memory past the caller\'s array) is read '
                 'or influences the table', floor=2, unit='hash fillers')
    for fn in ('isal_deflate_hash_base', 'isal_deflate_hash_mad_base'):
        f = mod.funcs.get(fn)
        if f is None:
            raise AnalysisBroken(fn + ' not found')
        R.instance()
        dictp = [n for t_, n in f.params if t_ == 'i8*']
        lenp = f.params[-1][1]
        found = None
        for b, br, c in irrules.cond_branches(mod, f):
            if c is None or c.op != 'icmp' or c.extra['pred'] not in ('ule', 'ult') or (c.ty or '') != 'i8*':
                continue
            cur, end = c.ops
            dcur = f.defs.get(cur)
            dend = f.defs.get(end)
            if dcur is None or dcur.op != 'phi' or dend is None or dend.op != 'getelementptr':
                continue
            idx = [x.split(' ')[-1] for x in (dend.extra or {}).get('idx', [])]
            inner = f.defs.get(dend.ops[0])
            if len(idx) != 1 or not re.match(r'^-?\d+$', idx[0]) or inner is None or inner.op != 'getelementptr' or inner.ops[0] not in dictp:
                continue
            ii = [x.split(' ')[-1] for x in (inner.extra or {}).get('idx', [])]
            z = f.defs.get(ii[0]) if ii else None
            if z is None or z.op not in ('zext', 'sext') or z.ops[0] != lenp:
                continue
            K = -int(idx[0])
            # width read at the cursor
            W = None
            for i in f.all_insns():
                m_ = re.match(r'^load_(le|be)_u(\d+)', i.callee or '') if i.op == 'call' else None
                if m_ and i.args[0][1] == cur:
                    W = int(m_.group(2)) // 8
            found = (c, K, W, c.extra['pred'])
        if found is None or found[2] is None:
            raise AnalysisBroken('%s: loop "cursor <= dict + dict_len - K" with a load at the cursor not recognised' % fn)
        c, K, W, pred = found
        need = W if pred == 'ule' else W - 1
        R.check(K >= need, mod.where(f, c), '%s hashes %d-byte words while next_in %s dict + dict_len - %d: the last word ends %d byte(s) behind the dictionary' % (fn, W, '<=' if pred == 'ule' else '<', K, need - K),
                key='M-HASHFILL-BOUND|%s' % fn, sample='%s: K = %d >= %d' % (fn, K, need))


def main(tier):
    rep = Report('C05', tier, level='other')
    rep.undecided = UNDECIDED
    rep.explanation = ('Pointer-provenance dataflow (ASMFLOW origin x affine) over every asm function of the build: each memory operand of each reachable instruction is attributed to the '
                       'argument object (or stack frame / constant pool) its address derives from, and compared with the family\'s declared read and write sets. Assembly is invisible to '
                       'compiler sanitizers and only the dispatched variant ever runs in the test suite; this rule reads all 129 kernels. It decides WHICH object every access goes to, not '
                       'whether the offset stays within the object\'s length.')
    rep.trusted = ['nasm/objdump decoding', 'ASMFLOW transfer functions (fail-closed: unknown provenance is reported, unmodelled GPR writers abort the analysis)',
                   'argument roles per kernel family (tools/kernels.py) taken from the public prototypes', 'struct offsets evaluated by nasm from data_struct2.asm / inflate_data_structs.asm']
    R = rep.rule('P-STORE-ALL', 'every store/load/rmw of every asm kernel goes through an object in the declared write/read set of its family; nothing is written through source, table, Huffman-table or global pointers', floor=120, unit='kernels')
    RC = rep.rule('P-COVER', 'every global asm function is a kernel of a known family, a multibinary interface stub, or a resolver; no reachable instruction is left unanalysed', floor=141, unit='asm units')
    RN = rep.rule('P-NO-RETAIN-ASM', 'no asm kernel stores a pointer derived from caller input (next_in, dict, src) into persistent state, except back into the next_in field it was loaded from', floor=10, unit='kernels')
    res, nofam = provenance.analyse('default')
    units = asmdb.units('default')
    for un, fn in nofam:
        RC.fail('%s:%s' % (un, fn), 'global asm function belongs to no kernel family known to the checker (add its argument roles to tools/kernels.py)', key='P-COVER|%s' % fn)
    off = kernels.offsets()
    for un, u in sorted(units.items()):
        RC.instance()
        covered = set()
        for f in u.funcs.values():
            covered |= f.aset
        for ep in facts.find_entry_points(u):
            for i in ep['mbinit_insns']:
                covered.add(i.addr)
            work = [ep['resolver']]
            while work:
                a = work.pop()
                while a in u.insns and a not in covered:
                    covered.add(a)
                    i = u.insns[a]
                    if i.mn == 'ret':
                        break
                    if i.mn == 'jmp':
                        if i.target is not None:
                            work.append(i.target)
                        break
                    if i.target is not None and i.mn.startswith('j'):
                        work.append(i.target)
                    a = i.end
        # uncovered bytes must be padding or data tables that start at a label
        def is_pad(i):
            return 'nop' in i.text or i.mn == 'int3' or (i.mn == 'xchg' and i.ops == ['ax', 'ax'])
        allr = []
        for a in sorted(u.insns):
            if a in covered:
                continue
            if not allr or a != allr[-1][1]:
                allr.append([a, u.insns[a].end, [a]])
            else:
                allr[-1][1] = u.insns[a].end
                allr[-1][2].append(a)
        regions = [[lo, hi] for lo, hi, addrs in allr if not all(is_pad(u.insns[x]) for x in addrs)]
        bad = []
        for lo, hi in regions:
            # region start must be a label or directly continue a labelled data region
            if not any(l in u.labels for l in range(lo - 15, lo + 1)):
                bad.append(lo)
            # no branch may target it
            for f in u.funcs.values():
                for x in f.addrs:
                    t = u.insns[x].target
                    if t is not None and lo <= t < hi:
                        bad.append(t)
        RC.check(not bad, un, 'unreached non-padding bytes in .text that are not a labelled data table: %s' % [hex(b) for b in bad[:5]], key='P-COVER|%s|bytes' % un,
                 sample='%s: %d data bytes in .text (%d regions), all labelled' % (un, sum(h - l for l, h in regions), len(regions)) if regions else None)
    for sym, info in sorted(res.items()):
        fam = info['fam']['family']
        if fam not in ALLOW:
            raise AnalysisBroken('no access rule for kernel family %s' % fam)
        R.instance()
        st, ld, rmw = ALLOW[fam]
        provenance.check_access_sets(R, sym, info, st, ld, rmw, key_prefix='P-STORE-ALL')
        if any(t in INPUT_TAGS for t in [base_tag(v) for v in info['fam']['args'].values()]) or fam.startswith('igzip'):
            RN.instance()
            u, f = info['unit'], info['func']
            n = 0
            for a in info['accesses']:
                if a.kind != 'store' or a.val is None or a.val[0] != 'P':
                    continue
                vt = base_tag(a.val)
                at = base_tag(a.addr)
                if vt in INPUT_TAGS and at in PERSISTENT:
                    n += 1
                    home = False
                    if at == 'STREAM' and a.addr[2] is not None and a.addr[2] == (off['deflate']['_next_in'], 0) and vt == 'NEXT_IN':
                        home = True
                    if at == 'STATE' and a.addr[2] is not None and a.addr[2] == (off['inflate']['_next_in'], 0) and vt == 'NEXT_IN':
                        home = True
                    RN.check(home, '%s: %s' % (u.name, u.where(a.insn, f)), 'pointer derived from %s is stored into %s: consumed input would be dereferenced after the call returns' % (vt, tag_name(a.addr)),
                             key='P-NO-RETAIN-ASM|%s|%s' % (sym, tag_name(a.addr)), sample='%s: next_in written back to its own field' % sym if home and sym.endswith('_01') else None)
            if n == 0:
                RN.ok(1)
    rep.attempt(check_c_loads, rep)
    import bounds
    rep.attempt(bounds.check, rep, {'raid_pq_gen', 'raid_pq_check', 'ec_dot_prod', 'ec_mad', 'ec_mul', 'mem_zero'}, 'BLOCK', 77)
    rep.attempt(bounds.check, rep, {'crc', 'crc_copy', 'adler'}, 'CRC', 30)
    import guardloop
    rep.attempt(guardloop.check, rep, 'ALL', r'.', 55)
    import c14, llir
    rep.attempt(c14.check_stored_flush_reset, rep, llir.library('default'))
    import c07
    rep.attempt(c07.check_hist_keep, rep, llir.library('default'))        # a history that is believed but not kept is read in front of state->buffer
    rep.attempt(check_hashfill_bound, rep, llir.library('default'))      # a history that survives a full flush is read through next_in - dist in front of the next input buffer
    rep.analysed.update(asm_units=len(units), kernels=len(res), families=sorted({i['fam']['family'] for i in res.values()}),
                        memory_operands=sum(len(i['accesses']) for i in res.values()))
    return rep.finish()
