"""C19 - gzip/zlib headers are written per RFC and parsed back losslessly.  Decided
(structural): header writers: the size test dominates every store / stream update; per-field
byte order = RFC 1952/1950 in writer and reader; flag/length constants and FCHECK; reader
status codes are the documented ones."""
import re
from common import Report, AnalysisBroken, read_repo
import llir, irrules, asmsum, mirror

UNDECIDED = 'resumable parsing across arbitrary input splits, name/comment/extra overflow resumption, exact stop position, bounds of reads on arbitrary bytes'


def summaries(mod):
    S0 = irrules.Summaries(mod, asmsum.asm_writes(mod, None))
    S = irrules.Summaries(mod, asmsum.asm_writes(mod, S0.W))
    return S


def field_offsets(struct, fields, headers=('igzip_lib.h',)):
    ex = [(f, 'offsetof(%s, %s)' % (struct, f)) for f in fields]
    v, drop = mirror.c_values('default', list(headers), ex, 'c19_' + struct.replace(' ', '_'))
    if drop:
        raise AnalysisBroken('%s has no member(s) %s' % (struct, drop))
    return v


def check_size_first(rep, mod, S):
    R = rep.rule('R-HDR-SIZE-FIRST', 'in the header writers the "avail_out < hdr_size -> return hdr_size" test lies on every path to any store through next_out and to any update of next_out/avail_out/total_out',
                 floor=2, unit='writers')
    zs = field_offsets('struct isal_zstream', ['next_out', 'avail_out', 'total_out'])
    for fn in ('isal_write_gzip_header', 'isal_write_zlib_header'):
        f = mod.funcs.get(fn)
        if f is None:
            raise AnalysisBroken(fn + ' not found')
        R.instance()
        P = irrules.prov(mod, f)
        # the guard: conditional branch on a comparison depending on stream->avail_out whose one edge returns a non-zero / variable value directly
        guard = None
        for b, br, c in irrules.cond_branches(mod, f):
            if c is None or c.op != 'icmp':
                continue
            deps = P.deps(c.dst)
            if ('mem', ('param', 0, zs['avail_out'])) not in deps:
                continue
            t_true, t_false = br.extra['targets']
            for fail, ok in ((t_true, t_false), (t_false, t_true)):
                rv = irrules.returns_via(f, fail)
                blk = f.blocks[fail]
                direct = len(blk.insns) <= 2 and (blk.succs and all(f.blocks[s].insns[-1].op == 'ret' or True for s in blk.succs))
                if 0 not in rv and rv and len(f.reachable_avoiding(fail, set())) <= 3:
                    guard = (b, fail, ok, c)
        if guard is None:
            R.fail(mod.where(f, None), 'no size test on stream->avail_out with an early return found', key='R-HDR-SIZE-FIRST|%s|guard' % fn)
            continue
        gb, fail, ok, cmp_ = guard
        unsafe = irrules.blocks_reachable_without_edge(f, gb, ok)
        nsite = 0
        for i, atoms in irrules.effects(mod, f, S):
            hit = []
            for a in atoms:
                if a[0] == 'ld' and a[1][0] == 'param' and a[1][1] == 0 and a[1][2] == zs['next_out']:
                    hit.append('store through next_out')
                if a[0] == 'param' and a[1] == 0 and (a[2] is None or a[2] in (zs['next_out'], zs['avail_out'], zs['total_out'])):
                    hit.append('update of stream field at offset %s' % a[2])
                if a == llir.UNK:
                    hit.append('write of unknown provenance')
            if not hit:
                continue
            nsite += 1
            R.check(i.block not in unsafe, mod.where(f, i), '%s is reachable without passing the successful size test (%s)' % (hit[0], i.text[:60]),
                    key='R-HDR-SIZE-FIRST|%s|%s' % (fn, hit[0]), sample='%s: %s only after avail_out >= hdr_size' % (fn, hit[0]) if nsite == 1 else None)
        R.check(nsite >= 3, mod.where(f, None), 'expected stores through next_out and updates of next_out/avail_out/total_out in %s, found %d write sites' % (fn, nsite), key='R-HDR-SIZE-FIRST|%s|count' % fn)


def base_name(n):
    return re.sub(r'\.\d+$', '', n)


def bswap_count(mod, fname, seen=None):
    seen = seen or set()
    if fname in seen or fname not in mod.funcs:
        return 0
    seen.add(fname)
    n = 0
    for i in mod.funcs[fname].all_insns():
        if i.op == 'call':
            if i.callee.startswith('llvm.bswap'):
                n += 1
            else:
                n += bswap_count(mod, i.callee, seen)
    return n


# RFC 1952 2.3 / RFC 1950 2.2: (struct, field) -> ('le'|'be', bits)
WRITER_FIELDS = {
    'isal_write_gzip_header': ('struct isal_gzip_header', {'time': ('le', 32), 'extra_len': ('le', 16)}),
    'isal_write_zlib_header': ('struct isal_zlib_header', {'dict_id': ('be', 32)}),
}
READER_FIELDS = {
    'isal_read_gzip_header': ('struct isal_gzip_header', {'time': ('le', 32)}),
    'isal_read_zlib_header': ('struct isal_zlib_header', {'dict_id': ('be', 32)}),
}


def check_endian(rep, mod):
    R = rep.rule('R-HDR-ENDIAN', 'every multi-byte header field is written and read with the byte order RFC 1952 (little-endian) / RFC 1950 (big-endian DICTID) prescribes', floor=4, unit='field accesses')
    RH = rep.rule('R-ENDIAN-HELPERS', 'load/store_le_* are identity and load/store_be_* are one byte swap of their width on this little-endian target', floor=12, unit='helpers')
    # meaning of the helpers: a probe TU wraps each helper; after -O2 a byte-swapping helper contains exactly one llvm.bswap of its width
    import os, cbuild, srcset
    from common import run
    d = cbuild.workdir()
    src = os.path.join(d, 'endian_probe.c')
    names = []
    with open(src, 'w') as fo:
        fo.write('#include "unaligned.h"\n')
        for kind in ('load', 'store'):
            for order in ('le', 'be'):
                for bits in (16, 32, 64):
                    n = '%s_%s_u%d' % (kind, order, bits)
                    names.append(n)
                    if kind == 'load':
                        fo.write('uint%d_t probe_%s(uint8_t *p) { return %s(p); }\n' % (bits, n, n))
                    else:
                        fo.write('void probe_%s(uint8_t *p, uint%d_t v) { %s(p, v); }\n' % (n, bits, n))
    out = os.path.join(d, 'endian_probe.ll')
    p = run(['clang'] + srcset.get().c_flags() + ['-w', '-O2', '-S', '-emit-llvm', '-o', out, src], ok=None)
    if p.returncode != 0:
        raise AnalysisBroken('endian helper probe does not compile: %s' % p.stderr[-800:])
    txt = open(out).read()
    for n in names:
        m = re.search(r'^define [^\n]*@probe_%s\(.*?^\}' % n, txt, re.M | re.S)
        if not m:
            raise AnalysisBroken('probe for %s vanished' % n)
        RH.instance()
        bits = int(n.rsplit('u', 1)[1])
        nsw = len(re.findall(r'@llvm\.bswap\.i%d\(' % bits, m.group(0)))
        other = len(re.findall(r'@llvm\.bswap\.', m.group(0))) - nsw
        want = 1 if '_be_' in n else 0
        RH.check(nsw == want and other == 0, 'include/unaligned.h:%s' % n, 'performs %d byte swap(s) of its width (%d of another width), expected %d on this little-endian target' % (nsw, other, want),
                 sample='%s: %d bswap' % (n, nsw) if n in ('store_be_u32', 'load_le_u16') else None)
    for fn, (sty, fields) in sorted(WRITER_FIELDS.items()):
        f = mod.funcs.get(fn)
        if f is None:
            raise AnalysisBroken(fn + ' not found')
        off = field_offsets(sty, list(fields))
        P = irrules.prov(mod, f)
        found = set()
        for i in f.all_insns():
            if i.op != 'call':
                continue
            m = re.match(r'^store_(le|be|native)_u(\d+)$', base_name(i.callee))
            if not m:
                continue
            deps = P.deps(i.args[1][1])
            for fld, (order, bits) in fields.items():
                if ('mem', ('param', 1, off[fld])) in deps:
                    found.add(fld)
                    R.instance()
                    R.check((m.group(1), int(m.group(2))) == (order, bits), mod.where(f, i), 'header field %s is written with %s; the RFC stores it as %d-bit %s-endian' % (fld, i.callee, bits, 'big' if order == 'be' else 'little'),
                            key='R-HDR-ENDIAN|%s|%s' % (fn, fld), sample='%s.%s via %s' % (fn, fld, i.callee))
        for fld in fields:
            if fld not in found:
                R.fail(mod.where(f, None), 'no store helper call found for header field %s' % fld, key='R-HDR-ENDIAN|%s|%s|missing' % (fn, fld))
    # gzip header CRC16 (computed value, not a struct field): the store helper fed by the crc32_gzip_refl result
    f = mod.funcs['isal_write_gzip_header']
    P = irrules.prov(mod, f)
    n = 0
    for i in f.all_insns():
        if i.op == 'call' and re.match(r'^store_', i.callee) and ('call', 'crc32_gzip_refl') in P.deps(i.args[1][1]):
            i_callee = base_name(i.callee)
            n += 1
            R.instance()
            R.check(i_callee == 'store_le_u16', mod.where(f, i), 'header CRC16 written with %s, RFC 1952 needs the low 16 bits little-endian' % i_callee, key='R-HDR-ENDIAN|isal_write_gzip_header|hcrc', sample='gzip hcrc via store_le_u16')
    if n == 0:
        R.fail(mod.where(f, None), 'no store of the header CRC16 found', key='R-HDR-ENDIAN|isal_write_gzip_header|hcrc|missing')
    for fn, (sty, fields) in sorted(READER_FIELDS.items()):
        f = mod.funcs.get(fn)
        if f is None:
            raise AnalysisBroken(fn + ' not found')
        off = field_offsets(sty, list(fields))
        P = irrules.prov(mod, f)
        found = set()
        for i in f.all_insns():
            if i.op != 'store':
                continue
            dst = P.atoms(i.ops[1])
            for fld, (order, bits) in fields.items():
                if ('param', 1, off[fld]) in dst:
                    deps = P.deps(i.ops[0])
                    loaders = sorted(base_name(d[1]) for d in deps if d[0] == 'call' and re.match(r'^load_(le|be|native)_u\d+$', base_name(d[1])))
                    if not loaders:
                        continue
                    found.add(fld)
                    R.instance()
                    R.check(loaders == ['load_%s_u%d' % (order, bits)], mod.where(f, i), 'header field %s is read with %s; the RFC stores it as %d-bit %s-endian' % (fld, loaders, bits, 'big' if order == 'be' else 'little'),
                            key='R-HDR-ENDIAN|%s|%s' % (fn, fld), sample='%s.%s via %s' % (fn, fld, loaders))
        for fld in fields:
            if fld not in found:
                R.fail(mod.where(f, None), 'no load helper feeding header field %s found' % fld, key='R-HDR-ENDIAN|%s|%s|missing' % (fn, fld))
    # gzip reader: XLEN and header CRC16 compare
    f = mod.funcs['isal_read_gzip_header']
    calls = [base_name(i.callee) for i in f.all_insns() if i.op == 'call' and re.match(r'^load_(le|be)_u16$', base_name(i.callee))]
    R.instance()
    R.check(calls.count('load_le_u16') >= 2 and 'load_be_u16' not in calls, mod.where(f, None), 'XLEN and header CRC16 must be read little-endian (16-bit loads used: %s)' % calls, key='R-HDR-ENDIAN|isal_read_gzip_header|u16',
            sample='isal_read_gzip_header: %s' % calls)


def check_consts(rep, mod):
    R = rep.rule('T-HDR-CONST', 'flag bits, method, field lengths and shifts of igzip_wrapper.h equal RFC 1952 / RFC 1950; FCHECK arithmetic present in producers and reader', floor=15, unit='constants')
    want = dict(DEFLATE_METHOD=8, ZLIB_DICT_FLAG=0x20, TEXT_FLAG=1, HCRC_FLAG=2, EXTRA_FLAG=4, NAME_FLAG=8, COMMENT_FLAG=16, GZIP_HDR_BASE=10, GZIP_EXTRA_LEN=2,
                GZIP_HCRC_LEN=2, GZIP_TRAILER_LEN=8, ZLIB_HDR_BASE=2, ZLIB_DICT_LEN=4, ZLIB_INFO_OFFSET=4, ZLIB_LEVEL_OFFSET=6, ZLIB_TRAILER_LEN=4)
    v, drop = mirror.c_values('default', ['igzip_wrapper.h'], [(k, k) for k in want], 'c19_consts')
    for k, w in sorted(want.items()):
        if k in drop:
            raise AnalysisBroken('igzip_wrapper.h no longer defines %s' % k)
        R.instance()
        R.check(v[k] == w, 'igzip/igzip_wrapper.h:%s' % k, 'is %d, the RFC value is %d' % (v[k], w), sample='%s = %d' % (k, w) if k in ('ZLIB_DICT_FLAG', 'HCRC_FLAG') else None)
    for fn in ('isal_write_zlib_header', 'isal_read_zlib_header'):
        f = mod.funcs.get(fn)
        if f is None:
            raise AnalysisBroken(fn + ' not found')
        R.instance()
        n = sum(1 for i in f.all_insns() if i.op in ('urem', 'srem') and i.ops and i.ops[-1] == '31')
        R.check(n >= 1, mod.where(f, None), 'no "% 31" (FCHECK, RFC 1950 2.2) computation', key='T-HDR-CONST|%s|fcheck' % fn, sample='%s: FCHECK mod 31 present' % fn)


def documented_codes(fn):
    txt = read_repo('include/igzip_lib.h')
    m = re.search(r'/\*\*((?:(?!\*/).)*?)\*/\s*(?:int|uint32_t)\s+%s\(' % fn, txt, re.S)
    if not m:
        raise AnalysisBroken('no doxygen comment found for %s' % fn)
    doc = m.group(1)
    r = doc[doc.index('@return'):] if '@return' in doc else ''
    return sorted(set(re.findall(r'\b(ISAL_[A-Z_]+)\b', r)))


def check_retcodes(rep, mod):
    R = rep.rule('R-RETCODES-HDR', 'the header readers return only the status codes their documentation lists', floor=2, unit='functions')
    for fn in ('isal_read_gzip_header', 'isal_read_zlib_header'):
        names = documented_codes(fn)
        v, drop = mirror.c_values('default', ['igzip_lib.h'], [(n, n) for n in names], 'c19_rc_' + fn)
        if drop:
            raise AnalysisBroken('documented status codes %s are not defined' % drop)
        allowed = set(v.values())
        rs = irrules.ret_set(mod, fn)
        R.instance()
        bad = sorted(str(x) for x in rs if x not in allowed)
        R.check(not bad, 'igzip/igzip_inflate.c:%s' % fn, 'may return %s; documented: %s' % (bad, sorted(allowed)), key='R-RETCODES-HDR|%s' % fn, sample='%s returns %s' % (fn, sorted(map(str, rs))))


def check_resume(rep, mod):
    """the header readers are resumable: a switch on block_state jumps back into the field that could not be completed.  That works only
    if the state stored when a field runs out of input is the label of the very case that reads that field."""
    R = rep.rule('R-HDR-RESUME', 'isal_read_gzip_header / isal_read_zlib_header: in the region entered through the switch case for state S (up to the next case label), every constant stored to state->block_state '
                 'is S itself (come back to this field) or ISAL_BLOCK_NEW_HDR (header complete); every header state of the enumeration has a case', floor=2, unit='readers')
    off = field_offsets('struct inflate_state', ['block_state'])['block_state']
    names = ['ISAL_BLOCK_NEW_HDR', 'ISAL_GZIP_EXTRA_LEN', 'ISAL_GZIP_EXTRA', 'ISAL_GZIP_NAME', 'ISAL_GZIP_COMMENT', 'ISAL_GZIP_HCRC', 'ISAL_ZLIB_DICT']
    vals, drop = mirror.c_values('default', ['igzip_lib.h'], [(n, n) for n in names], 'c19_states')
    if drop:
        raise AnalysisBroken('header states %s not found' % drop)
    byval = {v: k for k, v in vals.items()}
    for fn, want in (('isal_read_gzip_header', names[:6]), ('isal_read_zlib_header', [names[0], names[6]])):
        f = mod.funcs.get(fn)
        if f is None:
            raise AnalysisBroken(fn + ' not found')
        R.instance()
        P = irrules.prov(mod, f)
        sws = [i for i in f.all_insns() if i.op == 'switch']
        if len(sws) != 1:
            raise AnalysisBroken('%s: expected one resume switch, found %d' % (fn, len(sws)))
        cases = {int(k): v for k, v in (sws[0].extra['cases'].items() if isinstance(sws[0].extra['cases'], dict) else sws[0].extra['cases'])}
        R.check(set(cases) == {vals[n] for n in want}, mod.where(f, sws[0]), '%s: the resume switch has cases %s, the header states are %s' % (fn, sorted(byval.get(c, c) for c in cases), want), key='R-HDR-RESUME|%s|cases' % fn,
                sample='%s: cases %s' % (fn, [byval.get(c, c) for c in sorted(cases)]))
        labels = set(cases.values())
        for sval, lab in sorted(cases.items()):
            seen = set()
            work = [lab]
            while work:
                b = work.pop()
                if b in seen:
                    continue
                seen.add(b)
                for i in f.blocks[b].insns:
                    if i.op == 'store' and ('param', 0, off) in P.atoms(i.ops[1]) and re.match(r'^\d+$', i.ops[0]):
                        v = int(i.ops[0])
                        R.check(v in (sval, vals['ISAL_BLOCK_NEW_HDR']), mod.where(f, i), '%s: while reading the field of state %s the reader stores block_state = %s: the next call resumes in a different field and re-reads or skips header bytes' %
                                (fn, byval.get(sval, sval), byval.get(v, v)), key='R-HDR-RESUME|%s|%s' % (fn, byval.get(sval, sval)))
                for s_ in f.blocks[b].succs:
                    if s_ not in labels:
                        work.append(s_)


def check_field_pairing(rep, mod):
    """writer and reader are siblings over one wire format: the header structure field the writer serialises through a multi-byte
    endian helper must be the field the reader fills from the same kind of helper (a buffer-capacity field written where the
    length belongs round-trips nothing, and the in-tree test sets capacity == length)"""
    R = rep.rule('R-HDR-FIELD-PAIR', 'gzip / zlib header writer vs reader: for each multi-byte width, the set of header-structure fields whose loaded value is passed to store_{le,be}_uN in the writer equals '
                 'the set of header-structure fields the reader assigns from the result of load_{le,be}_uN (value flow through the IR, per structure offset)', floor=2, unit='writer/reader pairs')
    for tag, wfn, rfn, sty in (('gzip', 'isal_write_gzip_header', 'isal_read_gzip_header', 'struct isal_gzip_header'), ('zlib', 'isal_write_zlib_header', 'isal_read_zlib_header', 'struct isal_zlib_header')):
        w, r = mod.funcs.get(wfn), mod.funcs.get(rfn)
        if w is None or r is None:
            raise AnalysisBroken('%s / %s not found' % (wfn, rfn))
        R.instance()
        Pw, Pr = irrules.prov(mod, w), irrules.prov(mod, r)
        wf, rf = {}, {}
        for i in w.all_insns():
            m = re.match(r'^store_(le|be)_u(\d+)', i.callee or '') if i.op == 'call' else None
            if m:
                for a in Pw.atoms(i.args[1][1]):
                    if a[0] == 'ld' and a[1][0] == 'param' and a[1][1] == 1 and a[1][2] is not None:
                        wf.setdefault(m.group(1) + m.group(2), {})[a[1][2]] = mod.where(w, i)
        for i in r.all_insns():
            if i.op == 'store':
                cell = [a for a in Pr.atoms(i.ops[1]) if a[0] == 'param' and a[1] == 1 and a[2] is not None]
                if len(cell) != 1:
                    continue
                for a in Pr.atoms(i.ops[0]):
                    m = re.match(r'^load_(le|be)_u(\d+)', a[1]) if a[0] == 'call' else None
                    if m:
                        rf.setdefault(m.group(1) + m.group(2), {})[cell[0][2]] = mod.where(r, i)
        if not wf or not rf:
            raise AnalysisBroken('%s: no multi-byte field recognised in writer (%s) or reader (%s)' % (tag, sorted(wf), sorted(rf)))
        names = {}
        try:
            flds = [n for n in re.findall(r'(\w+)\s*;', re.search(r'%s \{(.*?)\n\};' % sty, read_repo('include/igzip_lib.h'), re.S).group(1))]
            names = {o: n for n, o in field_offsets(sty, flds).items()}
        except Exception:
            pass
        nm = lambda o: names.get(o, 'offset %d' % o)
        for k in sorted(set(wf) | set(rf)):
            a, b = set(wf.get(k, {})), set(rf.get(k, {}))
            only_w, only_r = a - b, b - a
            R.check(not only_w and not only_r, (wf.get(k, {}).get(sorted(only_w)[0]) if only_w else rf.get(k, {}).get(sorted(only_r)[0])) if (only_w or only_r) else wfn,
                    '%s header, %s-bit %s-endian fields: writer serialises %s, reader fills %s - the two ends disagree on which structure field this wire field is' %
                    (tag, k[2:], 'little' if k[:2] == 'le' else 'big', sorted(nm(o) for o in a), sorted(nm(o) for o in b)), key='R-HDR-FIELD-PAIR|%s|%s' % (tag, k),
                    sample='%s u%s%s: {%s} both ways' % (tag, k[2:], k[:2], ', '.join(sorted(nm(o) for o in a))))


def check_resume_offset(rep, mod):
    """a name / comment that did not fit in the input seen so far is continued at state->count bytes into the user's buffer: that count is a 32-bit quantity (a gzip string is unbounded)"""
    R = rep.rule('R-HDR-RESUME-OFFSET', 'isal_read_gzip_header: the offset argument of every string_header_copy call (where in the caller\'s name / comment buffer the copy continues) is the 32-bit value loaded from '
                 'state->count, reaching the call through widening casts and phis only - never narrowed on the way (a narrower temporary wraps for strings longer than it can count and the continuation overwrites '
                 'the start of the buffer)', floor=2, unit='string copies')
    off = field_offsets('struct inflate_state', ['count'])['count']
    f = mod.funcs.get('isal_read_gzip_header')
    if f is None:
        raise AnalysisBroken('isal_read_gzip_header not found')
    P = irrules.prov(mod, f)
    for cs in [i for i in f.all_insns() if i.op == 'call' and re.sub(r'\.\d+$', '', i.callee or '') == 'string_header_copy']:
        R.instance()
        bad, seen, work = None, set(), [cs.args[3][1]]
        reached = False
        while work and bad is None:
            v = work.pop()
            if v in seen:
                continue
            seen.add(v)
            d = f.defs.get(v)
            if d is None:
                bad = 'a value that is not state->count (%s)' % v
            elif d.op in ('zext', 'sext', 'bitcast', 'freeze'):
                work.append(d.ops[0])
            elif d.op == 'phi':
                work += [x for x, _ in d.extra['incoming']]
            elif d.op == 'trunc':
                bad = 'a value narrowed to %s on the way' % d.ty
            elif d.op == 'load' and P.atoms(d.ops[0]) == {('param', 0, off)}:
                reached = True
            else:
                bad = 'a value computed by "%s"' % d.op
        R.check(bad is None and reached, mod.where(f, cs), 'isal_read_gzip_header continues a name / comment at %s instead of at the 32-bit state->count' % (bad or 'nothing'), key='R-HDR-RESUME-OFFSET|%s' % (cs.line or 0),
                sample='continues at state->count (32 bit)')


def check_null_skip(rep, mod):
    """the gzip optional fields are copied into buffers the caller MAY provide; with a NULL buffer the field is skipped, whatever its length"""
    R = rep.rule('R-HDR-NULL-SKIP', 'buffer_header_copy / string_header_copy: the return of the overflow code they are given (buf_error / str_error) is reached only through the "buffer != NULL" edge of a test of the '
                 'buffer parameter: a header field is never reported as not fitting into a buffer the caller did not provide (isal_inflate itself skips name / comment / extra with NULL buffers)', floor=2,
                 unit='copy helpers')
    for fn, bufp, errp in (('buffer_header_copy', 2, 5), ('string_header_copy', 1, 4)):
        f = mod.funcs.get(fn)
        if f is None:
            raise AnalysisBroken('%s not found' % fn)
        R.instance()
        buf, err = f.params[bufp][1], f.params[errp][1]
        # blocks that hand the error parameter to the return
        rets = [i for i in f.all_insns() if i.op == 'ret' and i.ops]
        src = set()
        for r in rets:
            d = f.defs.get(r.ops[0])
            if r.ops[0] == err:
                src.add(r.block)
            elif d is not None and d.op == 'phi':
                src |= {b for v, b in d.extra['incoming'] if v == err}
        if not src:
            raise AnalysisBroken('%s never returns its error-code parameter' % fn)
        # edges on which buf != NULL is known
        nonnull = set()
        for b in f.order:
            t = f.blocks[b].insns[-1]
            c = f.defs.get(t.extra.get('cond', '')) if t.op == 'br' and t.extra.get('cond') else None
            if c is not None and c.op == 'icmp' and c.extra['pred'] in ('eq', 'ne') and buf in c.ops[:2] and 'null' in c.ops[:2]:
                tt, tf = t.extra['targets']
                tgt = tt if c.extra['pred'] == 'ne' else tf
                if f.blocks[tgt].preds == [b]:          # the fact holds in the target only if the edge is its single way in
                    nonnull.add(tgt)
        ok = all(any(f.dominates(n_, s_) for n_ in nonnull) for s_ in src)
        R.check(ok, mod.where(f, None), '%s can return its overflow code on a path that never established buffer != NULL: with no buffer supplied (fields skipped) a field of a particular length - e.g. an empty name - is '
                'reported as overflowing and the member is rejected' % fn, key='R-HDR-NULL-SKIP|%s' % fn, sample='%s: overflow code only behind buffer != NULL' % fn)


def check_count_reset(rep, mod):
    """state->count is the offset into the string field being read (name, comment); it is what lets a field continue in the next call, so it must be back at 0 when a field is
    complete - whether or not the caller asked for the field - or the NEXT string field starts at a stale offset"""
    R = rep.rule('R-HDR-COUNT-RESET', 'string_header_copy: every path to the return of the constant 0 (field complete, terminating NUL consumed) passes a store of 0 to state->count - with or without a '
                 'destination buffer: the next string field of the header starts at offset 0', floor=1, unit='copy helpers')
    f = mod.funcs.get('string_header_copy')
    if f is None:
        raise AnalysisBroken('string_header_copy not found')
    R.instance()
    P = irrules.prov(mod, f)
    co = field_offsets('struct inflate_state', ['count'])['count']
    resets = {i.block for i in f.all_insns() if i.op == 'store' and i.ops[0] == '0' and P.atoms(i.ops[1]) == {('param', 0, co)}}
    if not resets:
        R.fail(mod.where(f, None), 'string_header_copy never stores 0 to state->count', key='R-HDR-COUNT-RESET|none')
        return
    # blocks from which the constant 0 is handed to the return
    zero_src = set()
    for r in [i for i in f.all_insns() if i.op == 'ret' and i.ops]:
        v = r.ops[-1].split()[-1]
        d = f.defs.get(v)
        if v == '0':
            zero_src.add(r.block)
        elif d is not None and d.op == 'phi':
            zero_src |= {b for x, b in d.extra['incoming'] if x == '0'}
    if not zero_src:
        raise AnalysisBroken('string_header_copy: no return of the constant 0 found')
    reach = f.reachable_avoiding(f.entry(), resets)
    bad = sorted(b for b in zero_src if b in reach)
    R.check(not bad, mod.where(f, None), 'string_header_copy can return 0 (field complete) through block(s) %s without resetting state->count: a field that was skipped (NULL buffer) or completed leaves its length '
            'behind, and the next name / comment is written at that offset - past the end of the caller\'s buffer if it is shorter' % bad, key='R-HDR-COUNT-RESET|string_header_copy',
            sample='string_header_copy: state->count = 0 on every path to "return 0"')


def check_copylen_guard(rep, mod):
    """avail_in / avail_out are 32-bit counts the caller chooses, up to 2^32 - 1.  Where such a count is itself the length of a copy into a fixed buffer of the state, the test
    that makes the copy safe has to bound the count; written as `avail + already_buffered < wanted` in 32 bits the sum wraps for counts near 2^32 and the small-buffer branch
    copies ~4 GiB."""
    R = rep.rule('L-COPYLEN-GUARD', 'inflate side: every memcpy whose length is a caller-supplied count itself (a plain load of avail_in / avail_out) is dominated by the guarding edge of a comparison of that count alone '
                 '(count < bound, bound computed without the count); a guard of the form count + x < bound in 32-bit arithmetic wraps for counts near 2^32 and is reported', floor=1, unit='copies whose length is a caller count')
    io = field_offsets('struct inflate_state', ['avail_in', 'avail_out'])
    n = 0
    for fn, f in sorted(mod.funcs.items()):
        pidx = [k for k, (t, _) in enumerate(f.params) if 'struct.inflate_state*' in t]
        if not pidx:
            continue
        P = irrules.prov(mod, f)
        cnt = {('mem', ('param', pidx[0], io['avail_in'])), ('mem', ('param', pidx[0], io['avail_out']))}
        for i in f.all_insns():
            if i.op != 'call' or not re.match(r'^(llvm\.)?mem(cpy|move)', i.callee or '') or len(i.ops) < 3:
                continue
            ln = i.ops[2]
            d = f.defs.get(irrules._strip(f, ln))
            if d is None or d.op != 'load' or not ({('mem', a) for a in P.atoms(d.ops[0])} & cnt):
                continue
            which = {('mem', a) for a in P.atoms(d.ops[0])} & cnt
            n += 1
            R.instance()
            direct, wrapping = [], []
            for b, t, c in irrules.cond_branches(mod, f):
                if c is None or c.op != 'icmp' or c.extra['pred'] not in ('ult', 'ule', 'ugt', 'uge', 'slt', 'sle', 'sgt', 'sge'):
                    continue
                tt, tf = t.extra['targets']
                for tgt in (tt, tf):
                    if not (f.blocks[tgt].preds == [b] and f.dominates(tgt, i.block)):
                        continue
                    for o in c.ops:
                        do = f.defs.get(irrules._strip(f, o))
                        if do is not None and do.op == 'load' and ({('mem', a) for a in P.atoms(do.ops[0])} & which):
                            direct.append(c)
                        elif do is not None and do.op == 'add' and (do.ty or '') == 'i32' and (P.deps(o) & which):
                            wrapping.append(c)
            R.check(bool(direct) or not wrapping, mod.where(f, i), '%s copies %s bytes, and the only test in front of it compares a 32-bit SUM containing that count (%s): for a count near 2^32 the sum wraps, the '
                    '"not enough input" branch is taken and the copy overruns the fixed buffer it fills' % (fn, 'avail_in' if ('mem', ('param', pidx[0], io['avail_in'])) in which else 'avail_out',
                                                                                                     mod.where(f, wrapping[0]) if wrapping else ''), key='L-COPYLEN-GUARD|%s|%s' % (fn, i.line or i.block),
                    sample='%s: copy of a caller count guarded by a comparison of the count itself' % fn)
    if n == 0:
        raise AnalysisBroken('L-COPYLEN-GUARD: no copy whose length is a plain load of avail_in / avail_out found')


def check_chunk_clean(rep, mod):
    """A resumable reader may store provisional values into the caller's header structure when it parks itself for more input (a running crc while the flags byte has not
    arrived).  Whatever it stores on such an exit has to be stored again - finally - on every path that completes the header, or the fields the caller receives depend on
    where the calls cut the input."""
    R = rep.rule('R-HDR-CHUNK-CLEAN', 'isal_read_gzip_header / isal_read_zlib_header: every header field that is stored in a block from which the completion of the header (wrapper_flag = 1) cannot be reached - a '
                 'store made only when the reader gives up for more input - is stored on every path from the entry through the ISAL_BLOCK_NEW_HDR case to the completion as well (forward must-written dataflow): no provisional value survives into '
                 'the result', floor=2, unit='readers')
    wo = field_offsets('struct inflate_state', ['wrapper_flag'])['wrapper_flag']
    KNEW = mirror.c_values('default', ['igzip_lib.h'], [('NEW', 'ISAL_BLOCK_NEW_HDR')], 'c19_newhdr2')[0]['NEW']
    for rn, st, fl in (('isal_read_gzip_header', 'struct isal_gzip_header', GZ_FIELDS), ('isal_read_zlib_header', 'struct isal_zlib_header', Z_FIELDS)):
        r = mod.funcs.get(rn)
        if r is None:
            raise AnalysisBroken(rn + ' not found')
        R.instance()
        names = {o: n for n, o in field_offsets(st, fl).items()}
        P = irrules.prov(mod, r)

        def hoff(ptr):
            at = P.atoms(ptr)
            if len(at) == 1:
                a = next(iter(at))
                if a[0] == 'param' and a[1] == 1:
                    return a[2]
            return None
        done = [i for i in r.all_insns() if i.op == 'store' and i.ops[0] == '1' and P.atoms(i.ops[1]) == {('param', 0, wo)}]
        if len(done) != 1:
            raise AnalysisBroken('%s: expected one store wrapper_flag = 1, found %d' % (rn, len(done)))
        dblk = done[0].block
        can_reach = {b for b in r.order if dblk in r.reachable_avoiding(b, set())}
        park = {}
        for i in r.all_insns():
            if i.op == 'store' and hoff(i.ops[1]) is not None and i.block not in can_reach:
                park.setdefault(hoff(i.ops[1]), i)
        IN = {b: None for b in r.order}
        IN[r.entry()] = frozenset()
        ch = True
        while ch:
            ch = False
            for b in r.order:
                if IN[b] is None:
                    continue
                cur = set(IN[b])
                for i in r.blocks[b].insns:
                    if i is done[0]:
                        break
                    if i.op == 'store' and hoff(i.ops[1]) is not None:
                        cur.add(hoff(i.ops[1]))
                if b == dblk:
                    IN['#done'] = frozenset(cur) if IN.get('#done') is None else IN['#done'] & frozenset(cur)
                succs = r.blocks[b].succs
                t = r.blocks[b].insns[-1]
                if t.op == 'switch':
                    # a call that starts the header (or continues its first field) goes through the ISAL_BLOCK_NEW_HDR case; the other cases resume behind fields whose values
                    # the earlier call stored for good
                    cs = t.extra['cases'].items() if isinstance(t.extra['cases'], dict) else t.extra['cases']
                    succs = [tg for k, tg in cs if int(k) == KNEW]
                for s_ in succs:
                    nw = frozenset(cur) if IN[s_] is None else IN[s_] & frozenset(cur)
                    if nw != IN[s_]:
                        IN[s_] = nw
                        ch = True
        final = IN.get('#done') or frozenset()
        bad = sorted(o for o in park if o not in final)
        R.check(not bad, mod.where(r, park[bad[0]]) if bad else mod.where(r, None), '%s stores header field(s) %s when it returns for more input, but not on every path that completes the header: the value the caller '
                'finds there depends on whether a call boundary fell inside the header (one piece: the caller\'s initial value; several pieces: the provisional one)' % (rn, [names.get(o, o) for o in bad]),
                key='R-HDR-CHUNK-CLEAN|%s' % rn, sample='%s: %d provisional store(s), all finalised' % (rn, len(park)))


def check_magic(rep, mod):
    """RFC 1952: a member starts with ID1 = 0x1f, ID2 = 0x8b, CM = 8.  Each of the three comparisons must by itself send a mismatch to the documented
    error return; a mismatch edge from which the parser can still be reached (e.g. `&&` instead of `||`) accepts headers with one wrong byte."""
    R = rep.rule('R-HDR-MAGIC', 'isal_read_gzip_header: from the mismatch edge of each of the comparisons ID1 == 0x1f, ID2 == 0x8b, CM == 8 every path reaches the return with the constant ISAL_INVALID_WRAPPER '
                 '(ID1, ID2) / ISAL_UNSUPPORTED_METHOD (CM) and nothing else (paths enumerated with phi resolution per edge)', floor=3, unit='comparisons')
    V, drop = mirror.c_values('default', ['igzip_lib.h'], [(n, n) for n in ('ISAL_INVALID_WRAPPER', 'ISAL_UNSUPPORTED_METHOD')], 'c19_magic')
    if drop:
        raise AnalysisBroken('status codes missing')
    f = mod.funcs.get('isal_read_gzip_header')
    if f is None:
        raise AnalysisBroken('isal_read_gzip_header not found')
    want = {31: ('ID1 == 0x1f', V['ISAL_INVALID_WRAPPER']), 139: ('ID2 == 0x8b', V['ISAL_INVALID_WRAPPER']), 8: ('CM == 8', V['ISAL_UNSUPPORTED_METHOD'])}
    found = {}
    for i in f.all_insns():
        if i.op == 'icmp' and i.extra['pred'] in ('eq', 'ne') and re.match(r'^\d+$', i.ops[1]) and int(i.ops[1]) in want:
            t = f.blocks[i.block].insns[-1]
            if t.op == 'br' and t.extra.get('cond') == i.dst:
                found.setdefault(int(i.ops[1]), []).append((i, t))
    for k, (name, code) in sorted(want.items()):
        R.instance()
        if len(found.get(k, [])) != 1:
            R.fail('igzip/igzip_inflate.c:isal_read_gzip_header', 'the comparison %s was not found as a branch condition' % name, key='R-HDR-MAGIC|%d|missing' % k)
            continue
        i, t = found[k][0]
        tt, tf = t.extra['targets']
        mis = tt if i.extra['pred'] == 'ne' else tf
        try:
            res = irrules.nonzero_on_paths(mod, f, (i.block, mis, t), maxpaths=200)
        except AnalysisBroken as e:
            res = [(('unknown', str(e)), [mis])]
        bad = [(c, p) for c, p in res if c != ('const', code)]
        R.check(not bad, mod.where(f, i), 'after a mismatch of %s the function can still %s: a header with this byte wrong is not rejected with %d' %
                (name, 'return %s via %s' % (bad[0][0][1] if bad else '', ' -> '.join(bad[0][1][:6])) if bad else '', code), key='R-HDR-MAGIC|%d' % k, sample='%s mismatch -> %d only' % (name, code))


GZ_FIELDS = ['text', 'time', 'xflags', 'os', 'extra', 'extra_buf_len', 'extra_len', 'name', 'name_buf_len', 'comment', 'comment_buf_len', 'hcrc', 'flags']
Z_FIELDS = ['info', 'level', 'dict_id', 'dict_flag']


def check_hdr_persist(rep, mod):
    """The header readers are resumable (R-HDR-RESUME), and part of what a resumed call needs lives in the HEADER STRUCTURE, not in the inflate state: fields the reader
    reads before it has written them on some path from its entry (and writes elsewhere), and fields the caller reads after the call that the reader does not write on every
    path.  A library function that calls a reader on a header object of its own (a local) and can be entered again for the same header therefore has to fill those fields
    from storage that survives between calls before the call, and to save them after it."""
    R = rep.rule('R-HDR-PERSIST', 'every call of isal_read_gzip_header / isal_read_zlib_header from a library function on a header object local to that function: either the function sets block_state to '
                 'ISAL_BLOCK_NEW_HDR on every path before the call (one-shot: the reader never resumes), or (a) each resume field of the reader - read through the header parameter before being written on some path '
                 'from the entry, and written by the reader - and each field the caller reads after the call that the reader leaves unwritten on some path receives, before the call, a value carried from the '
                 'inflate state (a load from it through casts only, or a store guarded by a test of it), and (b) each resume field is stored verbatim (load, casts) into the inflate state after the call: a fresh header per call cannot resume, and a value that is recomputed on the way is not the reader\'s', floor=4,
                 unit='call sites')
    names = {}
    for st, fl in (('struct isal_gzip_header', GZ_FIELDS), ('struct isal_zlib_header', Z_FIELDS)):
        names[st] = {o: n for n, o in field_offsets(st, fl).items()}
    so = field_offsets('struct inflate_state', ['block_state'])['block_state']
    K, drop = mirror.c_values('default', ['igzip_lib.h'], [('NEW', 'ISAL_BLOCK_NEW_HDR')], 'c19_newhdr')
    if drop:
        raise AnalysisBroken('ISAL_BLOCK_NEW_HDR not found')
    readers = {}
    for rn, st in (('isal_read_gzip_header', 'struct isal_gzip_header'), ('isal_read_zlib_header', 'struct isal_zlib_header')):
        r = mod.funcs.get(rn)
        if r is None:
            raise AnalysisBroken(rn + ' not found')
        P = irrules.prov(mod, r)

        def hoff(ptr):
            at = P.atoms(ptr)
            if len(at) == 1:
                a = next(iter(at))
                if a[0] == 'param' and a[1] == 1:
                    return a[2]
            return None
        # must-written offsets at block entry (forward, intersection)
        IN = {b: None for b in r.order}
        IN[r.entry()] = frozenset()
        changed = True
        ue, written = set(), set()
        while changed:
            changed = False
            for b in r.order:
                if IN[b] is None:
                    continue
                cur = set(IN[b])
                for i in r.blocks[b].insns:
                    if i.op == 'load':
                        o = hoff(i.ops[0])
                        if o is not None and o not in cur:
                            ue.add(o)
                    elif i.op == 'store':
                        o = hoff(i.ops[1])
                        if o is not None:
                            cur.add(o)
                            written.add(o)
                for s_ in r.blocks[b].succs:
                    new = frozenset(cur) if IN[s_] is None else IN[s_] & frozenset(cur)
                    if new != IN[s_]:
                        IN[s_] = new
                        changed = True
        # offsets written on every path from a RESUME entry (a case of the switch on block_state other than ISAL_BLOCK_NEW_HDR) to a return that does not park the reader again: what a resumed call leaves
        # unwritten is what the caller must not read from a fresh header (a call that starts at the beginning of the header behaves as in the one-piece case by construction)
        Ps = P
        sw = [i for i in r.all_insns() if i.op == 'switch' and r.defs.get(irrules._strip(r, i.ops[0])) is not None and r.defs[irrules._strip(r, i.ops[0])].op == 'load'
              and Ps.atoms(r.defs[irrules._strip(r, i.ops[0])].ops[0]) == {('param', 0, so)}]
        if len(sw) != 1:
            raise AnalysisBroken('%s: expected one switch on state->block_state, found %d' % (rn, len(sw)))
        cs = sw[0].extra['cases'].items() if isinstance(sw[0].extra['cases'], dict) else sw[0].extra['cases']
        targets = sorted({t for k, t in cs if int(k) != K['NEW']})
        always = None
        for T in targets:
            INT = {b: None for b in r.order}
            INT[T] = frozenset()
            ch = True
            while ch:
                ch = False
                for b in r.order:
                    if INT[b] is None:
                        continue
                    cur = set(INT[b])
                    parks = False
                    for i in r.blocks[b].insns:
                        if i.op == 'store' and hoff(i.ops[1]) is not None:
                            cur.add(hoff(i.ops[1]))
                        if i.op == 'store' and re.match(r'^\d+$', i.ops[0]) and int(i.ops[0]) != K['NEW'] and Ps.atoms(i.ops[1]) == {('param', 0, so)}:
                            parks = True          # the reader parks itself for another call: the caller gets "more input needed", not a parsed header
                    if parks:
                        continue
                    if r.blocks[b].insns[-1].op == 'ret':
                        always = cur if always is None else always & cur
                    for s_ in r.blocks[b].succs:
                        nw = frozenset(cur) if INT[s_] is None else INT[s_] & frozenset(cur)
                        if nw != INT[s_]:
                            INT[s_] = nw
                            ch = True
        if not targets:
            always = set(written)
        readers[rn] = dict(st=st, resume=ue & written, always=always or set(), written=written)
    nsites = 0
    for gn, g in sorted(mod.funcs.items()):
        if gn in readers:
            continue
        calls = [i for i in g.all_insns() if i.op == 'call' and i.callee in readers]
        if not calls:
            continue
        P = irrules.prov(mod, g)
        sidx = [n for n, (t, _) in enumerate(g.params) if 'struct.inflate_state*' in t]
        for c in calls:
            rd = readers[c.callee]
            hat = P.atoms(c.ops[1])
            if len(hat) != 1 or next(iter(hat))[0] != 'alloca' or not sidx:
                continue          # the header belongs to the caller's caller (a wrapper that forwards its argument): nothing is lost here
            H = next(iter(hat))[1]
            nsites += 1
            R.instance()
            where = mod.where(g, c)
            # one-shot: a store of NEW_HDR to state->block_state in a block that dominates the call
            oneshot = False
            for i in g.all_insns():
                if i.op == 'store' and i.ops[0] == str(K['NEW']) and P.atoms(i.ops[1]) == {('param', sidx[0], so)} and (g.dominates(i.block, c.block)):
                    if i.block != c.block or g.blocks[i.block].insns.index(i) < g.blocks[c.block].insns.index(c):
                        oneshot = True
            if oneshot:
                R.ok(1, sample='%s: %s always starts at ISAL_BLOCK_NEW_HDR (one-shot)' % (gn, c.callee))
                continue
            after = g.reachable_avoiding(c.block, set())
            cidx = g.blocks[c.block].insns.index(c)

            def pure_copy_of(v, pred, depth=0):
                """v is a load from a location accepted by pred, looked at through integer casts only: the value is carried, not recomputed"""
                d_ = g.defs.get(v)
                if d_ is None or depth > 4:
                    return False
                if d_.op in ('zext', 'sext', 'trunc', 'bitcast'):
                    return pure_copy_of(d_.ops[0], pred, depth + 1)
                return d_.op == 'load' and pred(P.atoms(d_.ops[0]))

            def is_after(i):
                return (i.block == c.block and g.blocks[i.block].insns.index(i) > cidx) or (i.block != c.block and i.block in after)
            need = set(rd['resume'])
            for i in g.all_insns():
                if i.op == 'load' and is_after(i):
                    at = P.atoms(i.ops[0])
                    if len(at) == 1 and next(iter(at))[:2] == ('alloca', H) and next(iter(at))[2] in rd['written'] and next(iter(at))[2] not in rd['always']:
                        need.add(next(iter(at))[2])
            nm = names[rd['st']]
            for o in sorted(need):
                okv = False
                for i in g.all_insns():
                    if i.op != 'store' or P.atoms(i.ops[1]) != {('alloca', H, o)} or is_after(i) and i.block != c.block:
                        continue
                    if i.block == c.block and g.blocks[i.block].insns.index(i) > cidx:
                        continue
                    if c.block not in g.reachable_avoiding(i.block, set()):
                        continue
                    if pure_copy_of(i.ops[0], lambda at: len(at) == 1 and next(iter(at))[0] == 'param' and next(iter(at))[1] == sidx[0]):
                        okv = True        # carried verbatim: a load from the inflate state, through casts only
                    elif not g.dominates(i.block, c.block):
                        for pb in g.blocks[i.block].preds:
                            t = g.blocks[pb].insns[-1]
                            if t.op == 'br' and t.extra.get('cond') and any(d[0] == 'mem' and d[1][0] == 'param' and d[1][1] == sidx[0] for d in P.deps(t.extra['cond'])):
                                okv = True
                kind = 'is read by %s before it is written when the reader resumes' % c.callee if o in rd['resume'] else 'is read here after the call but not written by %s on every path' % c.callee
                R.check(okv, where, '%s: header field %s %s, but before this call it only ever gets the value of a freshly initialised header: the header object is local to %s and does not survive between calls, '
                        'so a header that is cut by a call boundary is parsed differently from the same header in one piece' % (gn, nm.get(o, '+%d' % o), kind, gn), key='R-HDR-PERSIST|%s|%s|restore|%s' % (gn, c.callee, nm.get(o, o)),
                        sample='%s: %s.%s restored from the inflate state before %s' % (gn, H, nm.get(o, o), c.callee))
            for o in sorted(rd['resume']):
                saved = False
                for i in g.all_insns():
                    if i.op == 'store' and is_after(i):
                        at = P.atoms(i.ops[1])
                        if len(at) == 1 and next(iter(at))[0] == 'param' and next(iter(at))[1] == sidx[0] and pure_copy_of(i.ops[0], lambda a_: a_ == {('alloca', H, o)}):
                            saved = True
                R.check(saved, where, '%s: header field %s is resume state of %s but is not stored verbatim into the inflate state after the call (a value that is filtered or recomputed on the way - e.g. made to depend on another field that the reader has not filled in yet - is not what the reader needs back)' % (gn, nm.get(o, '+%d' % o), c.callee),
                        key='R-HDR-PERSIST|%s|%s|save|%s' % (gn, c.callee, nm.get(o, o)), sample='%s: %s.%s saved into the inflate state after %s' % (gn, H, nm.get(o, o), c.callee))
    if nsites == 0:
        raise AnalysisBroken('R-HDR-PERSIST: no library function calls a header reader on a header object of its own')


def main(tier):
    rep = Report('C19', tier, level='other')
    rep.undecided = UNDECIDED
    rep.explanation = ('Dataflow over the linked LLVM IR of the header writers/readers: (1) the successful edge of the avail_out size test is shown to lie on every path to any write through '
                       'next_out or update of the stream counters (edge removal + reachability, with interprocedural write summaries for helper calls); (2) each multi-byte header field is matched '
                       '- through value dependencies, not source text - to the endian helper that writes/reads it and compared with the byte order the RFC prescribes; the in-tree test only '
                       'round-trips writer->reader, so a field wrong in both directions passes it; (3) constants vs RFC; (4) return-code sets vs the documentation.')
    rep.trusted = ['clang IR + sroa', 'tools/llir.py provenance/dependency analysis', 'RFC 1950/1952 field table in props/c19.py']
    mod = llir.library('default')
    S = summaries(mod)
    rep.attempt(check_size_first, rep, mod, S)
    rep.attempt(check_endian, rep, mod)
    rep.attempt(check_consts, rep, mod)
    rep.attempt(check_retcodes, rep, mod)
    rep.attempt(check_field_pairing, rep, mod)
    rep.attempt(check_resume, rep, mod)
    rep.attempt(check_resume_offset, rep, mod)
    rep.attempt(check_hdr_persist, rep, mod)
    rep.attempt(check_null_skip, rep, mod)
    rep.attempt(check_count_reset, rep, mod)
    rep.attempt(check_copylen_guard, rep, mod)
    rep.attempt(check_chunk_clean, rep, mod)
    import c17
    rep.attempt(c17.check_mask_range, rep, 'default')      # the CMF byte written by _zlib_header_in_buffer: CINFO for every hist_bits
    import probepure
    rep.attempt(probepure.check_avail_unsigned, rep, mod, field_offsets('struct isal_zstream', ['avail_in', 'avail_out']), field_offsets('struct inflate_state', ['avail_in', 'avail_out']))
    rep.attempt(check_magic, rep, mod)
    import acct
    rep.attempt(acct.check, rep, 'z', 4, field_offsets('struct isal_zstream', ['next_in', 'avail_in', 'total_in', 'next_out', 'avail_out', 'total_out']), field_offsets('struct inflate_state', ['next_in', 'avail_in', 'next_out', 'avail_out', 'total_out']), mod, only={'isal_write_gzip_header', 'isal_write_zlib_header'}, suffix='HDR-WRITERS')
    return rep.finish()
