"""C18 - custom Huffman tables built from any histogram are valid and usable.  Decided
(structural): table install refused unless at a block boundary, before any store; depth limits
passed by both builders (15 first, 13/12 on the unusable-table path); bit-budget inequality of
the fallback limits vs. the encoder's bit buffer; header worst case fits ISAL_DEF_MAX_HDR_SIZE."""
import re
from common import Report, AnalysisBroken
import llir, irrules, mirror
import c19

UNDECIDED = 'that the heap-based builder and the length-limiting repair yield complete prefix codes for every histogram, and that the rendered header parses back to those codes'


def base_name(n):
    return re.sub(r'\.\d+$', '', n)


def main(tier):
    rep = Report('C18', tier, level='other')
    rep.undecided = UNDECIDED
    rep.explanation = ('Effect and dominance analysis over the LLVM IR of isal_deflate_set_hufftables and the two table builders, plus compiler-evaluated constant inequalities: the install guard '
                       'has no side effect on its refusing paths; both builders call gen_huff_code_lens with the deflate limit first and with the safe limits exactly on the path guarded by '
                       'are_hufftables_useable; the safe limits satisfy the bit-buffer budget; the worst-case header fits its buffer. The Huffman construction itself is not decided.')
    rep.trusted = ['clang IR + sroa', 'tools/llir.py dominators / write summaries', 'clang constant evaluation']
    mod = llir.library('default')
    S = c19.summaries(mod)
    K, drop = mirror.c_values('default', ['huff_codes.h', 'bitbuf2.h', 'igzip_lib.h'],
                              [(n, n) for n in ('MAX_DEFLATE_CODE_LEN', 'MAX_SAFE_LIT_CODE_LEN', 'MAX_SAFE_DIST_CODE_LEN', 'MAX_BITBUF_BIT_WRITE', 'ISAL_DEF_MAX_CODE_LEN', 'ISAL_DEF_MAX_HDR_SIZE',
                                                'MAX_HUFF_TREE_DEPTH', 'LIT_LEN', 'DIST_LEN', 'ISAL_INVALID_OPERATION', 'ZSTATE_NEW_HDR', 'IGZIP_HUFFTABLE_CUSTOM', 'IGZIP_HUFFTABLE_DEFAULT',
                                                'IGZIP_HUFFTABLE_STATIC', 'COMP_OK', 'ISAL_DEF_LIT_LEN_SYMBOLS', 'ISAL_DEF_DIST_SYMBOLS')], 'c18')
    if drop:
        raise AnalysisBroken('constants missing: %s' % drop)
    # ---- R-HUFF-GUARD
    R = rep.rule('R-HUFF-GUARD', 'isal_deflate_set_hufftables refuses (ISAL_INVALID_OPERATION) unless state == ZSTATE_NEW_HDR and for unknown types / NULL custom table, on paths without any store; arms are exactly the three table types', floor=1, unit='functions')
    f = mod.funcs.get('isal_deflate_set_hufftables')
    if f is None:
        raise AnalysisBroken('isal_deflate_set_hufftables not found')
    R.instance()
    P = irrules.prov(mod, f)
    off = c19.field_offsets('struct isal_zstream', ['internal_state.state', 'hufftables'])
    ret = [i for i in f.all_insns() if i.op == 'ret'][0]
    d = f.defs.get(ret.ops[0])
    if d is None or d.op != 'phi':
        raise AnalysisBroken('isal_deflate_set_hufftables: return phi expected')
    err = [pb for v, pb in d.extra['incoming'] if v == str(K['ISAL_INVALID_OPERATION'])]
    R.check(len(err) >= 2, mod.where(f, ret), 'expected at least two ISAL_INVALID_OPERATION returns (wrong state; unknown type / NULL table), found %d' % len(err), key='R-HUFF-GUARD|rets')
    eff = irrules.effects(mod, f, S)
    for eb in err:
        back = set()
        work = [eb]
        while work:
            b = work.pop()
            if b in back:
                continue
            back.add(b)
            work += f.blocks[b].preds
        bad = [(i, a) for i, atoms in eff if i.block in back for a in atoms if not irrules.is_local(a)]
        R.check(not bad, mod.where(f, bad[0][0] if bad else ret), 'a store lies on a path that ends in the refusing return', key='R-HUFF-GUARD|effect', sample='refusing return via %s: no store' % eb)
    # the state test dominates every store to stream->hufftables
    guard = None
    for b, br, c in irrules.cond_branches(mod, f):
        if c is not None and c.op == 'icmp' and ('mem', ('param', 0, off['internal_state.state'])) in P.deps(c.ops[0]) and c.ops[1] == str(K['ZSTATE_NEW_HDR']):
            tt, tf = br.extra['targets']
            okb = tf if c.extra['pred'] == 'ne' else tt
            guard = (b, okb)
    R.check(guard is not None, mod.where(f, None), 'no test of internal_state.state against ZSTATE_NEW_HDR', key='R-HUFF-GUARD|statetest')
    if guard:
        unsafe = irrules.blocks_reachable_without_edge(f, guard[0], guard[1])
        n = 0
        for i, atoms in eff:
            if ('param', 0, off['hufftables']) in atoms:
                n += 1
                R.check(i.block not in unsafe, mod.where(f, i), 'stream->hufftables is assigned on a path that bypasses the block-boundary test', key='R-HUFF-GUARD|store', sample='hufftables assigned only when state == ZSTATE_NEW_HDR')
        R.check(n >= 3, mod.where(f, None), 'expected three assignments of stream->hufftables (default, static, custom), found %d' % n, key='R-HUFF-GUARD|count')
    sw = [i for i in f.all_insns() if i.op == 'switch']
    R.check(len(sw) == 1 and set(dict(sw[0].extra['cases'])) == {K['IGZIP_HUFFTABLE_CUSTOM'], K['IGZIP_HUFFTABLE_DEFAULT'], K['IGZIP_HUFFTABLE_STATIC']}, mod.where(f, sw[0] if sw else None),
            'type switch arms are not exactly {CUSTOM, DEFAULT, STATIC}', key='R-HUFF-GUARD|arms')
    # ---- R-DEPTH-ARGS
    RD = rep.rule('R-DEPTH-ARGS', 'both table builders call gen_huff_code_lens with MAX_DEFLATE_CODE_LEN first and with MAX_SAFE_LIT_CODE_LEN / MAX_SAFE_DIST_CODE_LEN exactly on the path taken when are_hufftables_useable reports an unusable table',
                  floor=2, unit='builders')
    for fn in ('isal_create_hufftables', 'isal_create_hufftables_subset'):
        g = mod.funcs.get(fn)
        if g is None:
            raise AnalysisBroken(fn + ' not found')
        RD.instance()
        calls = [i for i in g.all_insns() if i.op == 'call' and base_name(i.callee) == 'gen_huff_code_lens']
        # the branch on are_hufftables_useable()
        ub = None
        for b, br, c in irrules.cond_branches(mod, g):
            if c is not None and c.op == 'icmp' and c.ops[1] == '0':
                dv = g.defs.get(c.ops[0])
                if dv is not None and dv.op == 'call' and base_name(dv.callee) == 'are_hufftables_useable':
                    tt, tf = br.extra['targets']
                    ub = tt if c.extra['pred'] == 'ne' else tf
        if ub is None:
            RD.fail(mod.where(g, None), 'no branch on the result of are_hufftables_useable', key='R-DEPTH-ARGS|%s|branch' % fn)
            continue
        first, safe = [], []
        for cs in calls:
            lim = cs.args[-1][1]
            tbl_len = cs.args[-2][1]
            (safe if g.dominates(ub, cs.block) else first).append((tbl_len, lim, cs))
        RD.check(len(first) == 2 and all(l == str(K['MAX_DEFLATE_CODE_LEN']) for _, l, _ in first), mod.where(g, first[0][2] if first else None),
                 'initial construction must call gen_huff_code_lens twice with MAX_DEFLATE_CODE_LEN (%d); limits passed: %s' % (K['MAX_DEFLATE_CODE_LEN'], [l for _, l, _ in first]), key='R-DEPTH-ARGS|%s|first' % fn,
                 sample='%s: first pass limits %s' % (fn, [l for _, l, _ in first]))
        lit = [l for t, l, _ in safe if t == str(K['LIT_LEN'])]
        dist = [l for t, l, _ in safe if t != str(K['LIT_LEN'])]
        RD.check(lit == [str(K['MAX_SAFE_LIT_CODE_LEN'])] and dist == [str(K['MAX_SAFE_DIST_CODE_LEN'])], mod.where(g, safe[0][2] if safe else None),
                 'fallback construction must limit lit/len codes to %d and distance codes to %d; limits passed: lit %s dist %s' % (K['MAX_SAFE_LIT_CODE_LEN'], K['MAX_SAFE_DIST_CODE_LEN'], lit, dist),
                 key='R-DEPTH-ARGS|%s|safe' % fn, sample='%s: fallback limits lit %s dist %s' % (fn, lit, dist))
    # ---- T-BITBUDGET / T-HDRFIT
    RB = rep.rule('T-BITBUDGET', 'MAX_DEFLATE_CODE_LEN = 15 = ISAL_DEF_MAX_CODE_LEN; literal + length(+5 extra) + distance(+13 extra) with the safe limits fits MAX_BITBUF_BIT_WRITE, which leaves a byte of slack in the 64-bit bit buffer', floor=3, unit='inequalities')
    RB.instance(3)
    RB.check(K['MAX_DEFLATE_CODE_LEN'] == 15 == K['ISAL_DEF_MAX_CODE_LEN'] == K['MAX_HUFF_TREE_DEPTH'], 'igzip/huff_codes.h:MAX_DEFLATE_CODE_LEN', 'deflate limit %d / ISAL_DEF_MAX_CODE_LEN %d / tree depth %d must all be 15' %
             (K['MAX_DEFLATE_CODE_LEN'], K['ISAL_DEF_MAX_CODE_LEN'], K['MAX_HUFF_TREE_DEPTH']), sample='code length limit 15')
    worst = K['MAX_SAFE_LIT_CODE_LEN'] + (K['MAX_SAFE_LIT_CODE_LEN'] + 5) + (K['MAX_SAFE_DIST_CODE_LEN'] + 13)
    RB.check(worst <= K['MAX_BITBUF_BIT_WRITE'], 'igzip/huff_codes.h:MAX_SAFE_*', 'worst case literal+length+distance = %d bits exceeds MAX_BITBUF_BIT_WRITE = %d' % (worst, K['MAX_BITBUF_BIT_WRITE']),
             sample='%d + %d + %d = %d <= %d' % (K['MAX_SAFE_LIT_CODE_LEN'], K['MAX_SAFE_LIT_CODE_LEN'] + 5, K['MAX_SAFE_DIST_CODE_LEN'] + 13, worst, K['MAX_BITBUF_BIT_WRITE']))
    RB.check(K['MAX_BITBUF_BIT_WRITE'] <= 64 - 8, 'igzip/bitbuf2.h:MAX_BITBUF_BIT_WRITE', 'is %d; with up to 7 pending bits a write of more than 56 bits overflows the 64-bit accumulator' % K['MAX_BITBUF_BIT_WRITE'])
    RH = rep.rule('T-HDRFIT', 'the worst-case dynamic block header (3+14 bits, 19 code-length codes of 3 bits, 286+30 code lengths of at most 7 bits) plus 8 bytes of slack fits ISAL_DEF_MAX_HDR_SIZE', floor=1, unit='inequalities')
    RH.instance()
    bits = 17 + 19 * 3 + (K['ISAL_DEF_LIT_LEN_SYMBOLS'] + K['ISAL_DEF_DIST_SYMBOLS']) * 7
    RH.check(bits + 64 <= K['ISAL_DEF_MAX_HDR_SIZE'] * 8, 'include/igzip_lib.h:ISAL_DEF_MAX_HDR_SIZE', 'worst-case header %d bits + 64 bits slack exceeds %d bytes' % (bits, K['ISAL_DEF_MAX_HDR_SIZE']),
             sample='%d bits + 64 <= %d' % (bits, K['ISAL_DEF_MAX_HDR_SIZE'] * 8))
    rep.attempt(check_table_cover, rep, mod)
    rep.attempt(check_eob_always, rep, mod)
    rep.attempt(check_hist_width, rep, mod)
    rep.attempt(check_useable_schedule, rep, mod, K)
    rep.attempt(check_rl_count, rep, mod)
    return rep.finish()


FILLERS = {'create_code_tables': ((0, 1), 2), 'create_packed_dist_table': ((0,), 1), 'set_huff_codes': ((0,), 1)}     # callee -> (destination argument indices, count argument index)


def check_table_cover(rep, mod):
    """the encoder reads hufftables->dcodes / lit_table / dist_table for every symbol the stored header advertises: the builders must fill each of these
    arrays completely, i.e. the count they pass to the filling helper is the array's declared length (read from the IR type of the destination)."""
    R = rep.rule('L-TABLE-COVER', 'isal_create_hufftables / _subset: every call of a table-filling helper (create_code_tables, create_packed_dist_table) passes as count the declared element count of each destination array '
                 'of struct isal_hufftables it is given - no encoder table entry that the stored header can advertise is left at its memset value', floor=10, unit='(call, destination) pairs')
    for fn in ('isal_create_hufftables', 'isal_create_hufftables_subset'):
        f = mod.funcs.get(fn)
        if f is None:
            raise AnalysisBroken(fn + ' not found')
        for i in f.all_insns():
            cal = base_name(i.callee or '') if i.op == 'call' else None
            if cal not in FILLERS:
                continue
            dests, ci = FILLERS[cal]
            cnt = i.args[ci][1]
            for di in dests:
                R.instance()
                d = f.defs.get(i.args[di][1])
                m = re.match(r'^\[(\d+) x ', (d.extra.get('basety') or '').strip()) if d is not None and d.op == 'getelementptr' else None
                if m is None:
                    R.fail(mod.where(f, i), '%s: destination argument %d of %s is not the start of a declared array' % (fn, di, cal), key='L-TABLE-COVER|%s|%s|%d' % (fn, cal, di))
                    continue
                n = int(m.group(1))
                R.check(re.match(r'^\d+$', cnt) is not None and int(cnt) == n, mod.where(f, i), '%s: %s fills %s entries of a table declared with %d: the remaining entries keep their memset value although the stored header '
                        'can advertise a code for them' % (fn, cal, cnt if re.match(r'^\d+$', cnt) else 'a run-time number of', n), key='L-TABLE-COVER|%s|%s|%d' % (fn, cal, n),
                        sample='%s: %s count %s == declared %d' % (fn, cal, cnt, n))


def check_rl_count(rep, mod):
    """write_rl emits the run-length coded code-length sequence of the dynamic header and, alongside, the histogram (counts[]) from which the code-length Huffman code is built.
    A symbol that is emitted but not counted can end up with a zero-bit code: the stored header is unparsable although every table entry is right."""
    R = rep.rule('R-RL-COUNT', 'write_rl: in every basic block, each code-length symbol stored into the .code field of an output entry (a constant 0 / 16 / 17 / 18, or the length parameter) is matched by increments of '
                 'counts[that symbol] of the same total in the same block: what is emitted is what the code-length code is built from', floor=8, unit='emitting blocks')
    f = mod.funcs.get('write_rl')
    if f is None:
        raise AnalysisBroken('write_rl not found')
    pout, lastlen, counts = f.params[0][1], f.params[1][1], f.params[3][1]

    def root(v, depth=0):
        d = f.defs.get(v)
        if d is None or depth > 12:
            return v
        if d.op in ('getelementptr', 'bitcast'):
            return root(d.ops[0], depth + 1)
        if d.op == 'phi':
            rs = {root(x, depth + 1) for x, _ in d.extra['incoming']} - {v}
            return rs.pop() if len(rs) == 1 else v
        return v

    def sym(v):
        if re.match(r'^\d+$', v):
            return int(v)
        v2 = irrules._strip(f, v)
        return 'len' if v2 == lastlen else None
    n = 0
    for b in f.order:
        emitted, counted = {}, {}
        first = None
        for i in f.blocks[b].insns:
            if i.op != 'store':
                continue
            d = f.defs.get(i.ops[1])
            if d is None or d.op != 'getelementptr':
                continue
            idx = [x.split()[-1] for x in d.extra.get('idx', [])]
            if root(i.ops[1]) == pout and 'rl_code' in d.extra.get('basety', '') and len(idx) == 2 and idx[1] == '0':
                k = sym(i.ops[0])
                if k is None:
                    raise AnalysisBroken('write_rl: emitted symbol %s not understood' % i.ops[0])
                emitted[k] = emitted.get(k, 0) + 1
                first = first or i
            elif root(i.ops[1]) == counts:
                a = f.defs.get(i.ops[0])
                if a is None or a.op != 'add' or not re.match(r'^\d+$', a.ops[1]):
                    raise AnalysisBroken('write_rl: store to counts[] that is not an increment by a constant')
                k = sym(idx[0]) if len(idx) == 1 else None
                if k is None:
                    raise AnalysisBroken('write_rl: counts[] index %s not understood' % idx)
                counted[k] = counted.get(k, 0) + int(a.ops[1])
        if not emitted and not counted:
            continue
        n += 1
        R.instance()
        R.check(emitted == counted, mod.where(f, first) if first is not None else mod.where(f, None), 'write_rl, block %s: emits %s but counts %s: a code-length symbol that is emitted without being counted can get a '
                'zero-bit code in the code-length Huffman code, and the stored dynamic header cannot be parsed' % (b, emitted, counted), key='R-RL-COUNT|%s' % b, sample='block %s: %s emitted and counted' % (b, emitted))
    if n == 0:
        raise AnalysisBroken('write_rl: no emitting block found')


def check_useable_schedule(rep, mod, K):
    """are_hufftables_useable decides whether the fallback to the safe limits is taken; it is only right if it adds to every
    code length the number of extra bits RFC 1951 gives that symbol.  The extra-bit schedule in the function depends only on
    the loop counters, so constant propagation over the unrolled loops (CONSTINTERP: table contents are TOP) yields, for every
    symbol index, the constant added to its code length."""
    import constinterp, rfc1951
    R = rep.rule('T-EXTRA-SCHEDULE', 'are_hufftables_useable: the compared total is the sum of three maxima; every length symbol 257..285 is a candidate of one of them and every distance symbol 0..29 of another, each with exactly the RFC 1951 extra-bit count of that symbol added '
                 '(constant propagation through the unrolled, data-independent loop schedule); every literal is a candidate of the third; the sum is compared with MAX_BITBUF_BIT_WRITE', floor=59, unit='symbols')
    f = mod.funcs.get('are_hufftables_useable')
    if f is None:
        raise AnalysisBroken('are_hufftables_useable not found')
    P = irrules.prov(mod, f)
    # the three maxima the function adds up: the operand of the final comparison is a sum; each summand is a family of phis whose non-phi incoming values are
    # 0 or a (table entry length [+ constant]) - the candidates of that maximum
    ret_cmp = [i for i in f.all_insns() if i.op == 'icmp' and i.extra['pred'] in ('sgt', 'ugt') and re.match(r'^\d+$', i.ops[1]) and f.blocks[i.block].insns[-1].op == 'ret']
    if len(ret_cmp) != 1:
        raise AnalysisBroken('are_hufftables_useable: expected one final "sum > constant" comparison, found %d' % len(ret_cmp))
    cmpk = [int(ret_cmp[0].ops[1])]

    def summands(v):
        d = f.defs.get(irrules._strip(f, v))
        if d is not None and d.op == 'add' and not any(re.match(r'^-?\d+$', o) for o in d.ops):
            return summands(d.ops[0]) + summands(d.ops[1])
        return [irrules._strip(f, v)]
    sums = summands(ret_cmp[0].ops[0])
    if len(sums) != 3:
        raise AnalysisBroken('are_hufftables_useable: the compared total has %d summands, expected literal + length + distance' % len(sums))
    famof = {}
    for n, s0 in enumerate(sums):
        work, seenp = [s0], set()
        while work:
            v = work.pop()
            if v in seenp or re.match(r'^-?\d+$', v):
                continue
            seenp.add(v)
            d = f.defs.get(v)
            if d is not None and d.op == 'phi':
                work += [irrules._strip(f, x) for x, _ in d.extra['incoming']]
            elif d is not None:
                if v in famof and famof[v] != n:
                    raise AnalysisBroken('are_hufftables_useable: value %s feeds two of the three maxima' % v)
                famof[v] = n
    seen = {n: {0: {}, 1: {}} for n in range(3)}      # family -> table -> symbol -> set of constants added
    loads = {0: set(), 1: set()}

    def index_of(ptr, env, ip):
        v = ptr
        for _ in range(8):
            d = f.defs.get(v)
            if d is None:
                return None
            if d.op == 'getelementptr' and d.ops[0] in [n for _, n in f.params]:
                idx = d.extra['idx'][0].split()[-1]
                return ip.val(idx, env)
            v = d.ops[0]
        return None

    def table_of(ld):
        for a in P.atoms(ld.ops[0]):
            if a[0] == 'param' and a[1] in (0, 1):
                return a[1]
        return None

    def obs(i, env, ip):
        if i.op == 'load' and table_of(i) is not None:
            k = index_of(i.ops[0], env, ip)
            if k is not None and k != constinterp.TOP:
                loads[table_of(i)].add(k)
        if i.dst in famof:
            ld, addend = None, 0
            d = i
            if d.op == 'add':
                for x, y in ((d.ops[0], d.ops[1]), (d.ops[1], d.ops[0])):
                    dx = f.defs.get(irrules._strip(f, x))
                    if dx is not None and dx.op == 'load' and table_of(dx) is not None:
                        ld, addend = dx, ip.val(y, env)
            else:
                dx = f.defs.get(irrules._strip(f, i.dst)) if i.op in ('zext', 'sext', 'trunc') else i
                if dx is not None and dx.op == 'load' and table_of(dx) is not None:
                    ld = dx
            if ld is not None:
                k = index_of(ld.ops[0], env, ip)
                seen[famof[i.dst]][table_of(ld)].setdefault(k, set()).add(addend)
    ip = constinterp.Interp(mod, f, obs)
    ip.run()
    where = 'igzip/huff_codes.c:are_hufftables_useable'
    # which family is which: the one whose candidates are distance-table entries, the one that has a candidate for every literal 0..255, the remaining one
    fam_dist = [n for n in range(3) if seen[n][1]]
    fam_lit = [n for n in range(3) if n not in fam_dist and set(range(0, 256)) <= set(seen[n][0])]
    fam_len = [n for n in range(3) if n not in fam_dist and n not in fam_lit[:1]]
    if len(fam_dist) != 1 or not fam_lit or len(fam_len) != 1:
        R.instance()
        R.fail(where, 'the three summands of the compared total are not (a maximum over all literal codes) + (a maximum over the length codes) + (a maximum over the distance codes): candidates per summand %s'
               % [(sorted(k for k in seen[n][0] if isinstance(k, int))[:3], len(seen[n][0]), len(seen[n][1])) for n in range(3)], key='T-EXTRA-SCHEDULE|shape')
        return
    lenhi = K.get('LIT_LEN', 286) - 1
    for fam, tbl, lo, hi, ref, name in ((fam_len[0], 0, 257, lenhi, lambda s_: rfc1951.LEN_EXTRA[s_ - 257], 'length'), (fam_dist[0], 1, 0, K['DIST_LEN'] - 1 if 'DIST_LEN' in K else 29, lambda s_: rfc1951.DIST_EXTRA[s_], 'distance')):
        for s_ in range(lo, hi + 1):
            R.instance()
            got = seen[fam][tbl].get(s_)
            R.check(got == {ref(s_)}, where, '%s symbol %d: the %s maximum takes it with %s added to its code length, RFC 1951 gives it %d extra bits; the widest literal + length + distance group is mis-measured and an over-wide '
                    'table can be accepted for the 64-bit bit buffer' % (name, s_, name, sorted(got, key=str) if got else 'NOTHING (the symbol is not a candidate of that maximum)', ref(s_)),
                    key='T-EXTRA-SCHEDULE|%s|%d' % (name, s_), sample='%s symbols %d..%d: candidates of the %s maximum with the extra bits of RFC 1951' % (name, lo, hi, name) if s_ == hi else None)
    R.instance()
    R.check(set(range(0, 286)) <= loads[0], where, 'the literal/length scan does not visit every symbol 0..285 (visited %d)' % len(loads[0]), key='T-EXTRA-SCHEDULE|litscan', sample='all 286 lit/len symbols visited')
    R.check(cmpk == [K['MAX_BITBUF_BIT_WRITE']], where, 'the total is compared with %s, expected MAX_BITBUF_BIT_WRITE = %d' % (cmpk, K['MAX_BITBUF_BIT_WRITE']), key='T-EXTRA-SCHEDULE|limit',
            sample='sum > %d -> not usable' % K['MAX_BITBUF_BIT_WRITE'])


def check_hist_width(rep, mod):
    """the histograms handed to the table builders count up to 2^64 occurrences; the builders decide "symbol absent" and the tree weights from them"""
    R = rep.rule('L-HIST64-WIDTH', 'in the heap initialisers that read the 64-bit histograms (init_heap64, init_heap64_complete, init_heap64_semi_complete) no value loaded from the histogram is narrowed before it is '
                 'tested against zero or packed into the heap word: a count that is a multiple of 2^32 is not taken for "symbol absent" (the symbol would get no code although it occurs)', floor=5, unit='histogram loads')
    for fn in ('init_heap64', 'init_heap64_complete', 'init_heap64_semi_complete'):
        f = mod.funcs.get(fn)
        if f is None:
            raise AnalysisBroken('%s not found' % fn)
        P = irrules.prov(mod, f)
        hp = [n for n, (ty, _) in enumerate(f.params) if ty == 'i64*']
        if not hp:
            raise AnalysisBroken('%s has no 64-bit histogram parameter' % fn)
        loads = [i for i in f.all_insns() if i.op == 'load' and (i.ty or '') == 'i64' and any(a[0] == 'param' and a[1] in hp for a in P.atoms(i.ops[0]))]
        for ld in loads:
            R.instance()
            bad = None
            seen, work = set(), [ld.dst]
            while work and bad is None:
                v = work.pop()
                if v in seen:
                    continue
                seen.add(v)
                for u_ in f.all_insns():
                    if v in (u_.ops or []):
                        if u_.op == 'trunc':
                            bad = u_
                            break
                        if u_.op in ('select', 'freeze') and u_.dst:
                            work.append(u_.dst)
                    if u_.op == 'phi' and any(x == v for x, _ in u_.extra['incoming']) and u_.dst:
                        work.append(u_.dst)
            R.check(bad is None, mod.where(f, bad or ld), '%s narrows a 64-bit histogram count to %s: counts that are multiples of 2^%s look like zero, the symbol gets no code and every occurrence is encoded with zero bits' %
                    (fn, bad.ty if bad else '', (bad.ty or 'i32')[1:] if bad else ''), key='L-HIST64-WIDTH|%s|%s' % (fn, ld.line or 0), sample='%s: histogram counts used at 64 bits' % fn)


def check_eob_always(rep, mod):
    """isal_create_hufftables_subset leaves out literals that never occur.  Its heap initialiser takes the index from which symbols enter the
    Huffman construction unconditionally; the end-of-block symbol 256 is not a literal and terminates every block, so it must lie in that
    unconditional part.  Decided from the initialiser's own loops (which stores depend on the histogram) and the constant passed by the caller."""
    import scev
    R = rep.rule('R-EOB-ALWAYS', 'isal_create_hufftables_subset: the symbol range that enters the Huffman construction only when its histogram count is non-zero (the data-dependent loop of init_heap64_semi_complete, '
                 'its trip count being the argument complete_start) ends at or before symbol 256: the end-of-block symbol always gets a code, whatever the histogram', floor=1, unit='call sites')
    g = mod.funcs.get('init_heap64_semi_complete')
    if g is None:
        raise AnalysisBroken('init_heap64_semi_complete not found')
    # the first loop's store is control dependent on a histogram load, the second's is not; the first runs complete_start times
    exits = irrules.natural_loops(g)
    P = irrules.prov(mod, g)
    cond_loops = []
    for h, L in exits.items():
        for b in L:
            t = g.blocks[b].insns[-1]
            if t.op == 'br' and t.extra.get('cond') and b != h and any(d[0] == 'mem' for d in P.deps(t.extra['cond'])):
                cond_loops.append(h)
    A = scev.analysis('default')
    F = scev.Forms(A, 'init_heap64_semi_complete', [])
    cs = g.params[3][1]
    ok_shape = False
    for h in set(cond_loops):
        c = F.count(h)
        if c is not None and any(cs in m for m in c):
            ok_shape = True
    if not ok_shape:
        raise AnalysisBroken('init_heap64_semi_complete: no histogram-filtered loop whose trip count is complete_start')
    sites = [(f, i) for fn, f in mod.funcs.items() for i in f.all_insns() if i.op == 'call' and base_name(i.callee or '') == 'init_heap64_semi_complete']
    if not sites:
        raise AnalysisBroken('no call of init_heap64_semi_complete')
    for f, i in sites:
        R.instance()
        v = i.args[3][1]
        R.check(re.match(r'^\d+$', v) is not None and int(v) <= 256, mod.where(f, i), '%s filters symbols 0..%s-1 by their histogram count: the end-of-block symbol 256 gets no code when its count is 0 and the histogram needs no '
                'length-limiting fallback, and every stream compressed with the table is then unterminated / undecodable' % (f.name, v), key='R-EOB-ALWAYS|%s' % f.name, sample='%s: filtered range ends at %s' % (f.name, v))
