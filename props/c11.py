"""C11 - wrapped streams carry correct checksums and verification catches corruption.
Decided (structural): every verifying mode reaches a checksum comparator whose result flows
to the return value; the comparators' only success return is control-dependent on a comparison
that depends on the trailer bytes AND the running checksum (and the length for gzip); the
checksum family dispatch is exhaustive over the wrapper flags; trailer byte order per RFC."""
import re
from common import Report, AnalysisBroken
import llir, irrules, mirror
import c19

UNDECIDED = 'the checksum VALUES (that update_checksum is called over exactly the produced/consumed bytes) and detection of every possible corruption'


def base_name(n):
    return re.sub(r'\.\d+$', '', n)


def case_calls(mod, f, sw):
    """{case value or 'default': set of callee base names reachable from the case label before the switch's join block}"""
    # join block = immediate post-dominator of the switch block
    pd = f.postdominators()
    cands = pd.get(sw.block, set()) - {sw.block}
    join = None
    for c in cands:
        if c == '#exit':
            continue
        if all(c == o or c in pd.get(o, set()) or o == '#exit' or True for o in cands):
            pass
    # nearest post-dominator: the one that is post-dominated by all the others
    best = None
    for c in cands:
        if c == '#exit':
            continue
        if all(o == c or o == '#exit' or o in pd.get(c, set()) for o in cands):
            best = c
    join = best
    out = {}
    labels = dict(sw.extra['cases'])
    labels['default'] = sw.extra['default']
    for v, lab in labels.items():
        if lab == join:
            out[v] = set()
            continue
        blocks = f.reachable_avoiding(lab, {join} if join else set())
        calls = set()
        for b in blocks:
            for i in f.blocks[b].insns:
                if i.op == 'call' and not i.callee.startswith('llvm.'):
                    calls.add(base_name(i.callee))
        out[v] = calls
    return out


def check_family(rep, mod, flags):
    R = rep.rule('R-CSUM-FAMILY', 'update_checksum (deflate and inflate side): every gzip-family wrapper flag selects crc32_gzip_refl and every zlib-family flag isal_adler32_bam1; no other flag computes a checksum', floor=2, unit='functions')
    cands = [n for n in mod.funcs if base_name(n) == 'update_checksum']
    for n in sorted(cands):
        f = mod.funcs[n]
        R.instance()
        side = 'inflate' if 'inflate_state' in f.params[0][0] else 'deflate'
        sws = [i for i in f.all_insns() if i.op == 'switch']
        if len(sws) != 1:
            raise AnalysisBroken('%s: expected one switch' % n)
        cc = case_calls(mod, f, sws[0])
        if side == 'deflate':
            gz = {flags['IGZIP_GZIP'], flags['IGZIP_GZIP_NO_HDR']}
            zl = {flags['IGZIP_ZLIB'], flags['IGZIP_ZLIB_NO_HDR']}
        else:
            gz = {flags['ISAL_GZIP'], flags['ISAL_GZIP_NO_HDR'], flags['ISAL_GZIP_NO_HDR_VER']}
            zl = {flags['ISAL_ZLIB'], flags['ISAL_ZLIB_NO_HDR'], flags['ISAL_ZLIB_NO_HDR_VER']}
        for v in sorted(gz):
            R.check(cc.get(v) == {'crc32_gzip_refl'}, mod.where(f, sws[0]), '%s side: gzip-family flag %d calls %s, expected crc32_gzip_refl' % (side, v, sorted(cc.get(v, {'<no arm>'}))),
                    key='R-CSUM-FAMILY|%s|%d' % (side, v), sample='%s flag %d -> crc32_gzip_refl' % (side, v))
        for v in sorted(zl):
            R.check(cc.get(v) == {'isal_adler32_bam1'}, mod.where(f, sws[0]), '%s side: zlib-family flag %d calls %s, expected isal_adler32_bam1' % (side, v, sorted(cc.get(v, {'<no arm>'}))),
                    key='R-CSUM-FAMILY|%s|%d' % (side, v))
        for v, calls in cc.items():
            if v not in gz and v not in zl:
                R.check(not calls, mod.where(f, sws[0]), '%s side: arm %s computes a checksum (%s) for a non-wrapper flag' % (side, v, sorted(calls)), key='R-CSUM-FAMILY|%s|%s' % (side, v))


def check_reach(rep, mod, flags):
    R = rep.rule('R-VERIFY-REACH', 'every switch on crc_flag in isal_inflate / isal_inflate_stateless sends exactly the verifying modes to check_gzip_checksum / finalize_adler32+check_zlib_checksum, and the comparator\'s result flows to the return value',
                 floor=3, unit='switches')
    off = c19.field_offsets('struct inflate_state', ['crc_flag'])
    gzv = {flags['ISAL_GZIP'], flags['ISAL_GZIP_NO_HDR_VER']}
    zlv = {flags['ISAL_ZLIB'], flags['ISAL_ZLIB_NO_HDR_VER']}
    for fn in ('isal_inflate_stateless', 'isal_inflate'):
        f = mod.funcs.get(fn)
        if f is None:
            raise AnalysisBroken(fn + ' not found')
        P = irrules.prov(mod, f)
        n = 0
        for sw in [i for i in f.all_insns() if i.op == 'switch']:
            if ('mem', ('param', 0, off['crc_flag'])) not in P.deps(sw.ops[0]):
                continue
            cc = case_calls(mod, f, sw)
            if not any('check_gzip_checksum' in c or 'check_zlib_checksum' in c for c in cc.values()):
                continue   # another use of crc_flag (e.g. header parsing)
            n += 1
            R.instance()
            for v in sorted(gzv):
                R.check('check_gzip_checksum' in cc.get(v, set()), mod.where(f, sw), '%s: verifying mode %d does not reach check_gzip_checksum (calls %s)' % (fn, v, sorted(cc.get(v, {'<no arm>'}))),
                        key='R-VERIFY-REACH|%s|%d' % (fn, v), sample='%s: crc_flag %d -> check_gzip_checksum' % (fn, v))
            # the completion switch finalises the Adler-32 (also for the non-verifying ZLIB_NO_HDR mode); the ISAL_CHECKSUM_CHECK
            # resume switch runs after that happened and must not finalise again
            completion = 'finalize_adler32' in cc.get(flags['ISAL_ZLIB_NO_HDR'], set())
            for v in sorted(zlv):
                c = cc.get(v, set())
                R.check('check_zlib_checksum' in c and (('finalize_adler32' in c) == completion), mod.where(f, sw),
                        '%s: verifying mode %d must call check_zlib_checksum%s (calls %s)' % (fn, v, ' after finalize_adler32' if completion else ' without finalising the Adler-32 a second time', sorted(c)),
                        key='R-VERIFY-REACH|%s|%d' % (fn, v))
            for v, c in cc.items():
                if v not in gzv and v not in zlv:
                    R.check('check_gzip_checksum' not in c and 'check_zlib_checksum' not in c, mod.where(f, sw), '%s: non-verifying mode %s runs a trailer comparison' % (fn, v), key='R-VERIFY-REACH|%s|%s' % (fn, v))
        want = 1 if fn == 'isal_inflate_stateless' else 2
        R.check(n >= want, mod.where(f, None), '%s: %d verifying switches on crc_flag found, expected %d (completion and ISAL_CHECKSUM_CHECK resume)' % (fn, n, want), key='R-VERIFY-REACH|%s|count' % fn)
        # result flows to the return value
        rets = [i for i in f.all_insns() if i.op == 'ret' and i.ops]
        flows = set()
        for r in rets:
            for d in P.deps(r.ops[0]):
                if d[0] == 'call':
                    flows.add(base_name(d[1]))
        # ... and that of EVERY call site (a resumed check whose result is dropped lets the corrupted stream through with the previous 0)
        for cs in [i for i in f.all_insns() if i.op == 'call' and base_name(i.callee or '') in ('check_gzip_checksum', 'check_zlib_checksum')]:
            seen, work, hit = set(), [cs.dst] if cs.dst else [], False
            while work and not hit:
                v = work.pop()
                if v in seen:
                    continue
                seen.add(v)
                for u_ in f.all_insns():
                    if u_.op == 'ret' and u_.ops and u_.ops[0] == v:
                        hit = True
                        break
                    if u_.dst and ((u_.op == 'phi' and any(x == v for x, _ in u_.extra['incoming'])) or (u_.op in ('select', 'zext', 'sext', 'trunc', 'freeze', 'bitcast') and v in (u_.ops or []))):
                        work.append(u_.dst)
            R.check(hit, mod.where(f, cs), '%s: the result of this %s call never reaches the return value: a mismatch found here is reported as success' % (fn, base_name(cs.callee)),
                    key='R-VERIFY-REACH|%s|site|%s' % (fn, cs.line or 0))
        R.check({'check_gzip_checksum', 'check_zlib_checksum'} <= flows, mod.where(f, None), '%s: the comparators\' results do not flow to the return value (flows: %s)' % (fn, sorted(flows & {'check_gzip_checksum', 'check_zlib_checksum'})),
                key='R-VERIFY-REACH|%s|flow' % fn)


def check_cmp(rep, mod):
    R = rep.rule('R-VERIFY-CMP', 'in each comparator the ISAL_DECOMP_OK return is reached only through the "equal" edge of a comparison whose operands depend on the trailer bytes and state->crc (and state->total_out for gzip); the other edge returns ISAL_INCORRECT_CHECKSUM; the trailer is read in the RFC byte order',
                 floor=2, unit='comparators')
    off = c19.field_offsets('struct inflate_state', ['crc', 'total_out', 'read_in'])
    codes, _ = mirror.c_values('default', ['igzip_lib.h'], [('OK', 'ISAL_DECOMP_OK'), ('BAD', 'ISAL_INCORRECT_CHECKSUM')], 'c11_codes')
    for fn, need_len in (('check_gzip_checksum', True), ('check_zlib_checksum', False)):
        f = mod.funcs.get(fn)
        if f is None:
            raise AnalysisBroken(fn + ' not found')
        R.instance()
        P = irrules.prov(mod, f)
        ret = [i for i in f.all_insns() if i.op == 'ret'][0]
        d = f.defs.get(ret.ops[0])
        if d is None or d.op != 'phi':
            raise AnalysisBroken('%s: single return phi expected' % fn)
        ok_edges = [pb for v, pb in d.extra['incoming'] if v == str(codes['OK'])]
        R.check(len(ok_edges) >= 1, mod.where(f, ret), 'no constant ISAL_DECOMP_OK return found', key='R-VERIFY-CMP|%s|ok' % fn)
        for pb in ok_edges:
            good = False
            why = 'the success return is not guarded by a comparison'
            for b, br, c in irrules.cond_branches(mod, f):
                if c is None or c.op != 'icmp' or c.extra['pred'] not in ('eq', 'ne'):
                    continue
                tt, tf = br.extra['targets']
                eq_t, ne_t = (tt, tf) if c.extra['pred'] == 'eq' else (tf, tt)
                if not (eq_t == pb or (f.blocks[eq_t].preds == [b] and f.dominates(eq_t, pb))):
                    continue
                deps = P.deps(c.ops[0]) | P.deps(c.ops[1])
                has_crc = ('mem', ('param', 0, off['crc'])) in deps
                has_len = ('mem', ('param', 0, off['total_out'])) in deps
                loaders = {base_name(x[1]) for x in deps if x[0] == 'call'}
                has_trl = ('mem', ('param', 0, off['read_in'])) in deps and any(l.startswith('load_') for l in loaders)
                bad_rv = irrules.returns_via(f, ne_t)
                if has_crc and has_trl and (has_len or not need_len) and bad_rv == {codes['BAD']}:
                    good = True
                    if need_len:
                        R.check('load_le_u64' in loaders and not any('bswap' in l for l in loaders), mod.where(f, c), 'gzip trailer (CRC32, ISIZE) must be read little-endian (RFC 1952 2.3.1); helpers in the comparison: %s' % sorted(loaders),
                                key='R-VERIFY-CMP|%s|endian' % fn, sample='gzip trailer via load_le_u64')
                    else:
                        be = 'load_be_u32' in loaders or ('load_le_u32' in loaders and any('bswap_32' in l for l in loaders))
                        R.check(be, mod.where(f, c), 'zlib Adler-32 trailer must be read most-significant byte first (RFC 1950 2.2); helpers in the comparison: %s' % sorted(loaders),
                                key='R-VERIFY-CMP|%s|endian' % fn, sample='zlib trailer via %s' % sorted(loaders))
                else:
                    why = 'guarding comparison depends on crc=%s trailer=%s length=%s, failing edge returns %s' % (has_crc, has_trl, has_len, sorted(map(str, bad_rv)))
            R.check(good, mod.where(f, ret), '%s: %s' % (fn, why), key='R-VERIFY-CMP|%s|guard' % fn, sample='%s: OK only if trailer == f(crc%s)' % (fn, ', total_out' if need_len else ''))


def check_trailer_write(rep, mod, flags):
    R = rep.rule('R-TRAILER-ENDIAN', 'write_trailer stores the gzip trailer (CRC32 | ISIZE<<32) little-endian and the zlib Adler-32 big-endian, for exactly the matching wrapper flags', floor=1, unit='functions')
    f = mod.funcs.get('write_trailer')
    if f is None:
        raise AnalysisBroken('write_trailer not found')
    R.instance()
    off = c19.field_offsets('struct isal_zstream', ['gzip_flag', 'total_in'])
    P = irrules.prov(mod, f)
    sws = [i for i in f.all_insns() if i.op == 'switch' and ('mem', ('param', 0, off['gzip_flag'])) in P.deps(i.ops[0])]
    if len(sws) != 1:
        raise AnalysisBroken('write_trailer: expected one switch on gzip_flag, found %d' % len(sws))
    cc = case_calls(mod, f, sws[0])
    for v in (flags['IGZIP_GZIP'], flags['IGZIP_GZIP_NO_HDR']):
        R.check('store_le_u64' in cc.get(v, set()) and not any(c.startswith('store_be') for c in cc.get(v, set())), mod.where(f, sws[0]), 'gzip flag %d: trailer helpers %s, expected store_le_u64' % (v, sorted(cc.get(v, {'<no arm>'}))),
                key='R-TRAILER-ENDIAN|gzip|%d' % v, sample='gzip flag %d -> store_le_u64' % v)
    for v in (flags['IGZIP_ZLIB'], flags['IGZIP_ZLIB_NO_HDR']):
        R.check('store_be_u32' in cc.get(v, set()) and not any(c.startswith('store_le') for c in cc.get(v, set())), mod.where(f, sws[0]), 'zlib flag %d: trailer helpers %s, expected store_be_u32' % (v, sorted(cc.get(v, {'<no arm>'}))),
                key='R-TRAILER-ENDIAN|zlib|%d' % v, sample='zlib flag %d -> store_be_u32' % v)
    # the 64-bit gzip word combines crc and total_in
    for i in f.all_insns():
        if i.op == 'call' and base_name(i.callee) == 'store_le_u64':
            deps = P.deps(i.args[1][1])
            R.check(('mem', ('param', 0, off['total_in'])) in deps, mod.where(f, i), 'gzip trailer word does not depend on stream->total_in (ISIZE)', key='R-TRAILER-ENDIAN|isize')


def check_state_after_compare(rep, mod):
    """the trailer comparators own block_state once they run: they leave ISAL_CHECKSUM_CHECK behind when the trailer is not complete yet
    (so that the next call resumes the comparison) and the finished state otherwise.  A store to block_state that can execute after the
    comparator returned, in the same call, destroys the resume point and turns 'need more input' into 'finished'."""
    R = rep.rule('R-VERIFY-STATE', 'isal_inflate / isal_inflate_stateless: no store to state->block_state is reachable after a call of check_gzip_checksum / check_zlib_checksum within the same invocation '
                 '(CFG reachability from the call site; the comparator itself is the last writer of the decoder state)', floor=2, unit='entry points')
    off = c19.field_offsets('struct inflate_state', ['block_state'])['block_state']
    for fn in ('isal_inflate', 'isal_inflate_stateless'):
        f = mod.funcs.get(fn)
        if f is None:
            raise AnalysisBroken(fn + ' not found')
        R.instance()
        P = irrules.prov(mod, f)
        calls = [i for i in f.all_insns() if i.op == 'call' and base_name(i.callee) in ('check_gzip_checksum', 'check_zlib_checksum')]
        if len(calls) < 2:
            raise AnalysisBroken('%s: expected calls of both trailer comparators, found %d' % (fn, len(calls)))
        for cs in calls:
            # instructions after the call in its block, then every block reachable from it
            later = list(f.blocks[cs.block].insns[cs.idx + 1:])
            seen = set()
            work = list(f.blocks[cs.block].succs)
            while work:
                b = work.pop()
                if b in seen:
                    continue
                seen.add(b)
                later += f.blocks[b].insns
                work += f.blocks[b].succs
            bad = [j for j in later if j.op == 'store' and ('param', 0, off) in P.atoms(j.ops[1])]
            R.check(not bad, mod.where(f, bad[0]) if bad else mod.where(f, cs), '%s: block_state is stored here after %s (%s) may have left ISAL_CHECKSUM_CHECK for an incomplete trailer: the pending comparison is lost and the call reports the stream as finished'
                    % (fn, base_name(cs.callee), mod.where(f, cs)), key='R-VERIFY-STATE|%s|%s' % (fn, base_name(cs.callee)), sample='%s: nothing writes block_state after %s' % (fn, base_name(cs.callee)))


def check_csum_range(rep, mod):
    """the running checksum covers exactly the bytes a call consumed (deflate) / produced (inflate): every update_checksum(ctx, start, n) is
    called with start = the cursor (next_in / next_out) saved earlier in the same function and n = cursor now - start."""
    R = rep.rule('R-CSUM-RANGE', 'every call of update_checksum passes (start, n) with start loaded from the context\'s cursor field (next_in for deflate, next_out for inflate) and n = (current value of the same cursor field) - start; '
                 'the one-shot stored fallback passes the entry values of next_in and avail_in, both loaded before anything was consumed', floor=7, unit='call sites')
    for fn, f in sorted(mod.funcs.items()):
        P = irrules.prov(mod, f)
        for i in f.all_insns():
            if i.op != 'call' or base_name(i.callee) != 'update_checksum':
                continue
            R.instance()
            st, ln = i.args[1][1], i.args[2][1]
            sat = P.atoms(st)
            cur = [a for a in sat if a[0] == 'ld' and a[1][0] == 'param' and a[1][1] == 0]
            where = mod.where(f, i)
            if len(sat) != 1 or not cur:
                R.fail(where, 'start argument is not a saved copy of a cursor field of the context (%s)' % sorted(sat, key=str), key='R-CSUM-RANGE|%s|%d|start' % (fn, i.line or 0))
                continue
            field = cur[0][1]
            d = f.defs.get(irrules._strip(f, ln))
            ok = False
            why = ''
            if d is not None and d.op == 'sub':
                lhs = f.defs.get(irrules._strip(f, d.ops[0]))
                lhs_ok = ('ld', field, 0) in P.atoms(d.ops[0]) and lhs is not None
                rhs_ok = irrules._strip(f, _through_ptrtoint(f, d.ops[1])) == irrules._strip(f, st)
                ok = lhs_ok and rhs_ok
                why = 'length is %s - %s' % (sorted(P.atoms(d.ops[0]), key=str), sorted(P.atoms(d.ops[1]), key=str))
            elif d is not None and d.op == 'load':
                # entry values: both loads in the entry block, before any call
                sd = f.defs.get(irrules._strip(f, st))
                first_call = min([j.idx for j in f.blocks[f.order[0]].insns if j.op == 'call' and not j.callee.startswith('llvm.')] or [10 ** 9])
                ok = sd is not None and sd.block == f.order[0] and d.block == f.order[0] and sd.idx < first_call and d.idx < first_call and any(a[0] == 'param' and a[1] == 0 for a in P.atoms(d.ops[0]))
                why = 'length is a field value loaded at %s' % mod.where(f, d)
            R.check(ok, where, '%s: update_checksum is not given (saved cursor, cursor now - saved cursor): %s; the checksum then covers bytes that were not processed in this call, or misses some' % (fn, why),
                    key='R-CSUM-RANGE|%s|%d' % (fn, i.line or 0), sample='%s: n = cursor - start' % fn)


def _through_ptrtoint(f, v):
    d = f.defs.get(v)
    while d is not None and d.op in ('ptrtoint', 'bitcast', 'zext', 'sext', 'trunc'):
        v = d.ops[0]
        d = f.defs.get(v)
    return v


def check_adler_range(rep, mod):
    """inflate keeps the running Adler-32 as B<<16 | (A-1); finalize_adler32 converts the low half back to A.
    Both halves of a reference Adler-32 are residues mod 65521, so the low half written here must lie in
    [0, 65520] for every possible stored value - decided by interval abstract interpretation of the
    (loop-free) function, with branch refinement."""
    import intervals
    R = rep.rule('R-ADLER-RANGE', 'finalize_adler32: for every value of state->crc, the low half written back is a residue modulo 65521 (interval analysis: the value OR-ed under the preserved high half has upper bound <= 65520) '
                 'and the high half is passed through unchanged', floor=1, unit='functions')
    f = mod.funcs.get('finalize_adler32')
    if f is None:
        raise AnalysisBroken('finalize_adler32 not found')
    R.instance()
    off = c19.field_offsets('struct inflate_state', ['crc'])
    ip = intervals.Interp(mod, f)
    ip.run()
    P = irrules.prov(mod, f)
    stores = [i for i in f.all_insns() if i.op == 'store' and ('param', 0, off['crc']) in P.atoms(i.ops[1])]
    if not stores:
        raise AnalysisBroken('finalize_adler32 does not store to state->crc')
    for st in stores:
        d = f.defs.get(st.ops[0])
        lo = hi = None
        if d is not None and d.op == 'or':
            for x, y in ((d.ops[0], d.ops[1]), (d.ops[1], d.ops[0])):
                dx = f.defs.get(x)
                if dx is not None and dx.op == 'and' and '-65536' in dx.ops:
                    hi, lo = dx, y
        if lo is None:
            raise AnalysisBroken('%s: value stored to state->crc is not of the form (crc & 0xffff0000) | low' % mod.where(f, st))
        src = [o for o in hi.ops if o != '-65536'][0]
        R.check(('mem', ('param', 0, off['crc'])) in P.deps(src), mod.where(f, st),
                'high half (B) is not taken from state->crc', key='R-ADLER-RANGE|hi')
        iv = ip.values.get(lo)
        if iv is None and re.match(r'^\d+$', lo):
            iv = (int(lo), int(lo))
        R.check(iv is not None and iv[1] <= 65520, mod.where(f, st),
                'low half (A) of the finalized Adler-32 has range %s; a reference Adler-32 half is < 65521, so for some stored value the exposed checksum is wrong and a valid trailer is rejected' % (iv,),
                key='R-ADLER-RANGE|lo', sample='finalize_adler32: low half in [%d, %d]' % iv if iv else None)


def check_csum_guard(rep, mod, flags):
    """the running checksum must be updated for EVERY wrapper mode that carries (or exposes) a checksum, i.e. for every non-zero value of the
    flag field: partial evaluation of the control-flow graph per flag value (only branches whose condition is a function of the flag alone are
    decided) shows that no path from a flag test to its join skips the update."""
    R = rep.rule('R-CSUM-GUARD', 'every call of update_checksum outside the checksum helpers: for each non-zero wrapper flag value (compression: gzip_flag, decompression: crc_flag), in the control-flow graph '
                 'with the flag-only branches decided for that value, every path from each flag test that governs the call to the join of that test goes through the call - no wrapper mode with a trailer '
                 'checksum skips the update; and the call is reachable', floor=7, unit='call sites')
    offz = c19.field_offsets('struct isal_zstream', ['gzip_flag'])['gzip_flag']
    offi = c19.field_offsets('struct inflate_state', ['crc_flag'])['crc_flag']
    vz = {n: flags[n] for n in ('IGZIP_GZIP', 'IGZIP_GZIP_NO_HDR', 'IGZIP_ZLIB', 'IGZIP_ZLIB_NO_HDR')}
    vi = {n: flags[n] for n in ('ISAL_GZIP', 'ISAL_GZIP_NO_HDR', 'ISAL_ZLIB', 'ISAL_ZLIB_NO_HDR', 'ISAL_ZLIB_NO_HDR_VER', 'ISAL_GZIP_NO_HDR_VER')}
    for fn, f in sorted(mod.funcs.items()):
        sites = [i for i in f.all_insns() if i.op == 'call' and base_name(i.callee or '') == 'update_checksum']
        if not sites:
            continue
        pidx = None
        for n, (ty, name) in enumerate(f.params):
            if 'struct.isal_zstream*' in ty:
                pidx, off, vals = n, offz, vz
            elif 'struct.inflate_state*' in ty:
                pidx, off, vals = n, offi, vi
        if pidx is None:
            raise AnalysisBroken('%s calls update_checksum but has no stream parameter' % fn)
        P = irrules.prov(mod, f)
        pd = f.postdominators()

        def ev(c, v, depth=0):
            """value of an i1/int expression that depends on the flag only, else None"""
            if re.match(r'^-?\d+$', c):
                return int(c)
            if c in ('true', 'false'):
                return int(c == 'true')
            d = f.defs.get(irrules._strip(f, c))
            if d is None or depth > 8:
                return None
            if d.op == 'load':
                return v if P.atoms(d.ops[0]) == {('param', pidx, off)} else None
            if d.op == 'icmp':
                a, b = ev(d.ops[0], v, depth + 1), ev(d.ops[1], v, depth + 1)
                if a is None or b is None:
                    return None
                return int({'eq': a == b, 'ne': a != b, 'ugt': a > b, 'uge': a >= b, 'ult': a < b, 'ule': a <= b, 'sgt': a > b, 'sge': a >= b, 'slt': a < b, 'sle': a <= b}[d.extra['pred']])
            if d.op in ('and', 'or', 'xor'):
                a, b = ev(d.ops[0], v, depth + 1), ev(d.ops[1], v, depth + 1)
                if a is None or b is None:
                    return None
                return {'and': a & b, 'or': a | b, 'xor': a ^ b}[d.op]
            return None

        def succ(b, v):
            t = f.blocks[b].insns[-1]
            if t.op == 'br':
                if t.extra.get('cond'):
                    c = ev(t.extra['cond'], v) if v is not None else None
                    tt, tf = t.extra['targets']
                    return [tt, tf] if c is None else [tt if c else tf]
                return list(t.extra['targets'])
            if t.op == 'switch':
                cs = t.extra['cases'].items() if isinstance(t.extra['cases'], dict) else t.extra['cases']
                c = ev(t.ops[0], v) if v is not None else None
                if c is not None:
                    for k, tgt in cs:
                        if int(k) == c:
                            return [tgt]
                    return [t.extra['default']]
                return list(dict.fromkeys([t.extra['default']] + [x[1] for x in cs]))
            return []

        def ipdom(b):
            cands = pd.get(b, set()) - {b}
            best = None
            for c in cands:
                if c != '#exit' and all(o == c or o == '#exit' or o in pd.get(c, set()) for o in cands):
                    best = c
            return best

        def reach(start, v, avoid=None, stop=None):
            seen, work = set(), [start]
            while work:
                b = work.pop()
                if b in seen or b == avoid:
                    continue
                seen.add(b)
                if b == stop:
                    continue
                work += succ(b, v)
            return seen
        flagtests = []
        for b in f.order:
            t = f.blocks[b].insns[-1]
            if t.op == 'br' and t.extra.get('cond') and all(ev(t.extra['cond'], v) is not None for v in vals.values()):
                flagtests.append(b)
        for i in sites:
            R.instance()
            C = i.block
            where = mod.where(f, i)
            key = 'R-CSUM-GUARD|%s|%s' % (fn, C)
            bad = None
            for n, v in sorted(vals.items()):
                if C not in reach(f.order[0], v):
                    bad = 'with %s (%d) the call is unreachable' % (n, v)
                    break
                for B in flagtests:
                    J = ipdom(B)
                    # only tests the call is control-dependent on: it post-dominates one arm of B but not B itself
                    arms = succ(B, None)
                    if not f.dominates(B, C) or C in (pd.get(B, set()) - {B}) or not any(S == C or C in pd.get(S, set()) for S in arms):
                        continue
                    # in the graph decided for v: can the join (or a return) be reached from B without executing the call?
                    r = reach(B, v, avoid=C, stop=J)
                    esc = (J in r) if J is not None else any(f.blocks[x].insns[-1].op == 'ret' for x in r)
                    if esc:
                        bad = 'with %s (%d) the path from the flag test in %s to %s skips the call: the checksum of this wrapper mode misses the bytes of this call' % (n, v, B, J or 'the return')
                        break
                if bad:
                    break
            R.check(bad is None, where, '%s: %s' % (fn, bad), key=key, sample='%s: update for every non-zero flag' % fn)


def check_adler_bam1(rep, mod):
    """Between calls the zlib checksum is kept as B << 16 | (A - 1 mod 65521), so that it starts at 0 like the crc.  Three places convert: isal_adler32_bam1 (to the true
    Adler-32 before the kernel, back afterwards), the trailer writer and the inflate finaliser (stored -> true).  Each is a function of one 16-bit half with a single special
    value, and each is evaluated here for EVERY stored value 0..65520 (constant interpretation of the IR with the stored word as the only known input; the inner isal_adler32
    call stands for an update with no bytes and hands back its first argument)."""
    import constinterp
    MOD = 65521
    R = rep.rule('T-ADLER-BAM1', 'the conversions of the stored zlib checksum B << 16 | (A - 1 mod 65521): for every stored low half s in 0..65520 (two values of B) isal_adler32_bam1 hands (s + 1) mod 65521 '
                 'with B unchanged to the Adler-32 kernel and turns the kernel\'s result back into the stored word (identity for an empty update); the value the trailer writer passes to store_be_u32 and the value '
                 'finalize_adler32 stores are B << 16 | (s + 1) mod 65521 - evaluated by constant interpretation of the IR for all 65521 x 2 inputs each', floor=3, unit='conversions')
    co_z = c19.field_offsets('struct isal_zstream', ['internal_state.crc'])['internal_state.crc']
    co_i = c19.field_offsets('struct inflate_state', ['crc'])['crc']

    def sweep(name, run):
        R.instance()
        bad = None
        for B in (0, 0xABCD):
            for s_ in range(MOD):
                got = run((B << 16) | s_)
                want = (B << 16) | ((s_ + 1) % MOD)
                if got is None:
                    raise AnalysisBroken('T-ADLER-BAM1: %s could not be evaluated for stored value %#x' % (name, (B << 16) | s_))
                if got != want:
                    bad = ((B << 16) | s_, got, want)
                    break
            if bad:
                break
        return bad
    # 1. isal_adler32_bam1
    f = mod.funcs.get('isal_adler32_bam1')
    if f is None:
        raise AnalysisBroken('isal_adler32_bam1 not found')
    state = {}

    class IP(constinterp.Interp):
        def exec(self, i, env):
            if i.op == 'call' and i.callee == 'isal_adler32':
                state['arg'] = self.val(i.ops[0], env)
                env[i.dst] = state['arg']
                return
            return super().exec(i, env)

    def obs(i, env, ip):
        if i.op == 'ret':
            state['ret'] = ip.val(i.ops[-1].split()[-1], env)

    def run_bam1(x):
        state.clear()
        IP(mod, f, obs, params={f.params[0][1]: x}).run()
        a, r = state.get('arg'), state.get('ret')
        if a in (None, constinterp.TOP) or r in (None, constinterp.TOP):
            return None
        state['back'] = r & 0xffffffff
        return a & 0xffffffff
    bad = sweep('isal_adler32_bam1', run_bam1)
    where = mod.where(f, None)
    R.check(bad is None, where, 'isal_adler32_bam1: for the stored word %#010x the Adler-32 kernel is given %#010x, expected %#010x (A = stored + 1 mod 65521, B unchanged): the running zlib checksum is wrong from this '
            'call on' % (bad or (0, 0, 0)), key='T-ADLER-BAM1|bam1|to', sample='isal_adler32_bam1: stored -> true for all 65521 values')
    R.instance()
    back_bad = None
    for B in (0, 0xABCD):
        for s_ in range(MOD):
            x = (B << 16) | s_
            if run_bam1(x) is None or state.get('back') != x:
                back_bad = (x, state.get('back'))
                break
        if back_bad:
            break
    R.check(back_bad is None, where, 'isal_adler32_bam1: an update with no bytes turns the stored word %#010x into %s: converting the kernel\'s result back to B << 16 | (A - 1 mod 65521) is wrong for this value, '
            'so the checksum carried to the next call (and the trailer) is wrong whenever a call ends there' % (back_bad[0] if back_bad else 0, ('%#010x' % back_bad[1]) if back_bad and isinstance(back_bad[1], int) else 'an unknown value'),
            key='T-ADLER-BAM1|bam1|back', sample='isal_adler32_bam1: true -> stored is the inverse for all 65521 values')
    # 2. the two finalisers: slice from the load of the stored word to the value written
    for fn, co, sink in (('write_trailer', co_z, 'call:store_be_u32'), ('finalize_adler32', co_i, 'store:crc')):
        g = mod.funcs.get(fn)
        if g is None:
            raise AnalysisBroken('%s not found' % fn)
        P = irrules.prov(mod, g)
        pi = 0
        crc_atom = ('param', pi, co)
        sinks = []
        for i in g.all_insns():
            if sink.startswith('call:') and i.op == 'call' and i.callee == sink[5:] and ('mem', crc_atom) in P.deps(i.ops[1]):
                sinks.append((i, i.ops[1]))
            if sink.startswith('store:') and i.op == 'store' and P.atoms(i.ops[1]) == {crc_atom} and ('mem', crc_atom) in P.deps(i.ops[0]):
                sinks.append((i, i.ops[0]))
        if len(sinks) != 1:
            raise AnalysisBroken('T-ADLER-BAM1: %s: expected one place where the converted checksum is written, found %d' % (fn, len(sinks)))
        si, sv = sinks[0]
        # backward slice of sv within the function (pure arithmetic down to loads of the stored word / phis of such)
        order, seen = [], set()

        def visit(v):
            v = v.split()[-1]
            if v in seen or re.match(r'^-?\d+$', v):
                return
            seen.add(v)
            d = g.defs.get(v)
            if d is None:
                raise AnalysisBroken('T-ADLER-BAM1: %s: value %s has no definition' % (fn, v))
            if d.op == 'load':
                if P.atoms(d.ops[0]) != {crc_atom}:
                    raise AnalysisBroken('T-ADLER-BAM1: %s: the written value also depends on %s' % (fn, d.ops[0]))
                order.append(d)
                return
            if d.op == 'phi':
                for x, _ in d.extra['incoming']:
                    visit(x)
                order.append(d)
                return
            if d.op not in ('add', 'sub', 'and', 'or', 'xor', 'urem', 'zext', 'sext', 'trunc', 'shl', 'lshr', 'select', 'icmp', 'mul'):
                raise AnalysisBroken('T-ADLER-BAM1: %s: operation %s in the conversion is not modelled' % (fn, d.op))
            for o in d.ops:
                visit(o)
            order.append(d)
        visit(sv)
        ip = constinterp.Interp(mod, g, None)
        if len(g.order) <= 16 and any(d.op == 'phi' for d in order):
            # a small function whose conversion branches (a conditional form of the modulo): interpret the whole function with the stored word as the value of every load of the field
            res = {}

            def obs(i, env, ipx, si=si, sv=sv, res=res):
                if i is si:
                    res['v'] = ipx.val(sv.split()[-1], env)

            def run_fin(x, g=g, P=P, crc_atom=crc_atom, res=res, obs=obs):
                res.clear()
                constinterp.Interp(mod, g, obs, load_hook=lambda i: x if P.atoms(i.ops[0]) == {crc_atom} else None).run()
                r = res.get('v')
                return None if r in (None, constinterp.TOP) else r & 0xffffffff
            bad = sweep(fn, run_fin)
            R.check(bad is None, mod.where(g, si), '%s: the stored zlib checksum %#010x is converted to %#010x, RFC 1950 Adler-32 is %#010x (A = stored + 1 mod 65521): the trailer / the exposed checksum is wrong for inputs that '
                    'end on this value' % ((fn,) + (bad or (0, 0, 0))), key='T-ADLER-BAM1|%s' % fn, sample='%s: B << 16 | (s + 1) mod 65521 for all 65521 values' % fn)
            continue

        def run_fin(x, order=order, ip=ip, sv=sv):
            env = {}
            for d in order:
                if d.op == 'load':
                    env[d.dst] = x
                elif d.op == 'phi':
                    vals = {ip.val(v, env) for v, _ in d.extra['incoming']}
                    env[d.dst] = vals.pop() if len(vals) == 1 else constinterp.TOP
                else:
                    ip.exec(d, env)
            r = ip.val(sv.split()[-1], env)
            return None if r == constinterp.TOP else r & 0xffffffff
        bad = sweep(fn, run_fin)
        R.check(bad is None, mod.where(g, si), '%s: the stored zlib checksum %#010x is converted to %#010x, RFC 1950 Adler-32 is %#010x (A = stored + 1 mod 65521): the trailer / the exposed checksum is wrong for inputs that '
                'end on this value' % ((fn,) + (bad or (0, 0, 0))), key='T-ADLER-BAM1|%s' % fn, sample='%s: B << 16 | (s + 1) mod 65521 for all 65521 values' % fn)


def main(tier):
    rep = Report('C11', tier, level='other')
    rep.undecided = UNDECIDED
    rep.explanation = ('Dataflow over the linked LLVM IR: switch-arm -> callee maps (with the join block from the post-dominator tree) show that every verifying crc_flag mode reaches its trailer comparator in both inflate '
                       'entry points and in the resume path, and that update_checksum dispatches every wrapper flag to the right checksum family; in the comparators the success return is control-dependent on the '
                       'equal-edge of a comparison whose value-dependency set contains the trailer bytes, state->crc and (gzip) state->total_out. No test in the suite corrupts a stream, so a skipped comparison passes it.')
    rep.trusted = ['clang IR + sroa', 'tools/llir.py dependency sets and dominators']
    mod = llir.library('default')
    names = ['IGZIP_GZIP', 'IGZIP_GZIP_NO_HDR', 'IGZIP_ZLIB', 'IGZIP_ZLIB_NO_HDR', 'ISAL_GZIP', 'ISAL_GZIP_NO_HDR', 'ISAL_ZLIB', 'ISAL_ZLIB_NO_HDR', 'ISAL_ZLIB_NO_HDR_VER', 'ISAL_GZIP_NO_HDR_VER', 'ISAL_DEFLATE', 'IGZIP_DEFLATE']
    flags, drop = mirror.c_values('default', ['igzip_lib.h'], [(n, n) for n in names], 'c11_flags')
    if drop:
        raise AnalysisBroken('wrapper flags missing: %s' % drop)
    rep.attempt(check_family, rep, mod, flags)
    rep.attempt(check_reach, rep, mod, flags)
    rep.attempt(check_cmp, rep, mod)
    rep.attempt(check_trailer_write, rep, mod, flags)
    rep.attempt(check_adler_range, rep, mod)
    import c04, guardloop
    rep.attempt(c04.check_adler, rep)          # the Adler-32 kernels' constants and overflow schedule: the zlib trailer is their result
    rep.attempt(guardloop.check, rep, 'ADLER', r'adler32', 2)
    import crctwins
    rep.attempt(crctwins.check, rep)      # the gzip trailer is the result of crc32_gzip_refl, whichever twin the CPU gets
    rep.attempt(check_csum_range, rep, mod)
    rep.attempt(check_adler_bam1, rep, mod)
    rep.attempt(check_csum_guard, rep, mod, flags)
    rep.attempt(check_state_after_compare, rep, mod)
    import c10
    rep.attempt(c10.check_stored_bound, rep, mod)
    import acct, c19
    rep.attempt(acct.check, rep, 'i', 50, c19.field_offsets('struct isal_zstream', ['next_in', 'avail_in', 'total_in', 'next_out', 'avail_out', 'total_out']), c19.field_offsets('struct inflate_state', ['next_in', 'avail_in', 'next_out', 'avail_out', 'total_out']), mod)
    return rep.finish()
