"""C16 - the dispatcher only selects code the CPU and OS can execute (selection clause).
For every multibinary entry point, every path through its resolver: the ISA classes of all
instructions reachable from the selected symbol are implied by the feature/OS facts the
path established."""
import collections
from common import Report, AnalysisBroken
import srcset, asmdb, facts, isa
from program import Program

# explicit dependency relation between feature bits ("dependency-closed assignments")
IMPLIES = {
    'SSE4.2': ['SSE4.1'], 'SSE4.1': ['SSSE3'], 'SSSE3': ['SSE3'],
    'AVX': ['SSE4.2'], 'AVX2': ['AVX'], 'AVX512F': ['AVX2'],
    'AVX512DQ': ['AVX512F'], 'AVX512CD': ['AVX512F'], 'AVX512BW': ['AVX512F'], 'AVX512VL': ['AVX512F'],
    'AVX512VBMI2': ['AVX512F'], 'AVX512VBMI': ['AVX512F'], 'AVX512VNNI': ['AVX512F'], 'AVX512BITALG': ['AVX512F'],
    'AVX512VPOPCNTDQ': ['AVX512F'], 'AVX512IFMA': ['AVX512F'],
}
OS_NEED = {'OS.AVX': {'OSXSAVE', 'XCR0.SSE', 'XCR0.AVX'},
           'OS.AVX512': {'OSXSAVE', 'XCR0.SSE', 'XCR0.AVX', 'XCR0.OPMASK', 'XCR0.ZMMHI', 'XCR0.HI16'}}
FLOOR_ENTRIES = 42


def closure(fs):
    out = set(fs)
    work = list(fs)
    while work:
        x = work.pop()
        for y in IMPLIES.get(x, ()):
            if y not in out:
                out.add(y)
                work.append(y)
    for tok, need in OS_NEED.items():
        if need <= fs:
            out.add(tok)
    return out


def trace_text(u, trace):
    parts = []
    for i, taken in trace:
        parts.append('%s%s@%s' % (i.mn, '' if taken else '(not)', ('%s:%d' % (i.line[0].split('/')[-1], i.line[1])) if i.line else hex(i.addr)))
    return ' -> '.join(parts)


def analyse_config(rep, config, class_counts):
    prog = Program(config)
    R_paths = rep.rule('D-PATHS[%s]' % config, 'every resolver path is enumerated, ends in exactly one 64-bit store of a library symbol into its own slot, executes xgetbv only after seeing OSXSAVE',
                       floor=FLOOR_ENTRIES if config == 'default' else 30, unit='entry points')
    R_imp = rep.rule('D-IMPLIES[%s]' % config, 'ISA classes of every instruction reachable from the selected symbol are implied by the facts of the path (per path)',
                     floor=FLOOR_ENTRIES if config == 'default' else 30, unit='entry points')
    R_fb = rep.rule('D-FALLBACK[%s]' % config, 'a path that establishes no feature fact selects code with baseline requirements only', floor=30, unit='entry points')
    reqcache = {}
    npaths = 0
    for un, u in sorted(prog.units.items()):
        eps = facts.find_entry_points(u)
        for ep in sorted(eps, key=lambda e: e['name']):
            R_paths.instance()
            R_imp.instance()
            paths = facts.resolver_paths(u, ep['resolver'])
            npaths += len(paths)
            missing = collections.OrderedDict()
            has_nofact = False
            for p in paths:
                where = '%s:%s_dispatch path[%s]' % (un, ep['name'], trace_text(u, p.trace))
                ok = True
                for pr in p.problems:
                    R_paths.fail(where, pr, key='D-PATHS|%s|%s' % (ep['name'], pr.split(' at ')[0]))
                    ok = False
                if p.nstores != 1 or not p.stored or p.stored[0] != 'SYM' or p.stored[2] != 0:
                    R_paths.fail(where, 'path does not end in exactly one store of a symbol address (stores=%d value=%s)' % (p.nstores, p.stored),
                                 key='D-PATHS|%s|store' % ep['name'])
                    continue
                if not p.slot or p.slot[1] != ep['slot'] or p.slot[2] != 0:
                    R_paths.fail(where, 'store goes to %s, not to the entry point\'s own slot %s' % (p.slot, ep['slot']), key='D-PATHS|%s|slot' % ep['name'])
                    continue
                if ok:
                    R_paths.ok(1, sample='%s: facts=%s -> %s' % (ep['name'], sorted(p.facts), p.stored[1]) if len(p.facts) in (0, 9) else None)
                sym = p.stored[1]
                if sym not in reqcache:
                    reqcache[sym] = prog.requirement(sym)
                req, problems, seen = reqcache[sym]
                for pr in problems:
                    R_imp.fail('%s:%s' % (un, ep['name']), 'cannot bound the code reachable from %s: %s' % (sym, pr), key='D-IMPLIES|%s|%s|reach' % (ep['name'], sym))
                avail = closure(set(p.facts))
                if not p.facts:
                    has_nofact = True
                    R_fb.instance()
                    hard = [t for t in req if not t.startswith('soft:')]
                    R_fb.check(not hard, where, 'no-feature path selects %s which needs %s' % (sym, sorted(hard)), key='D-FALLBACK|%s|%s' % (ep['name'], sym),
                               sample='%s: no facts -> %s (baseline)' % (ep['name'], sym))
                bad = [t for t in req if not t.startswith('soft:') and t not in avail]
                if bad:
                    for t in bad:
                        missing.setdefault((sym, t), []).append((where, sorted(p.facts), req[t]))
                else:
                    R_imp.ok(1, sample='%s -> %s needs %s, path facts %s' % (ep['name'], sym, sorted(t for t in req if not t.startswith('soft:')), sorted(p.facts)) if len(p.facts) > 8 else None)
                for t in req:
                    class_counts[t] += 0
            for (sym, t), lst in missing.items():
                where, fs, wit = lst[0]
                R_imp.fail(where, 'entry %s selects %s on %d path(s) whose facts %s do not imply %s, needed by %s'
                           % (ep['name'], sym, len(lst), fs, t, wit), key='D-IMPLIES|%s|%s|%s' % (ep['name'], sym, t),
                           entry=ep['name'], selected=sym, token=t, paths=len(lst))
            if not has_nofact:
                R_fb.notes.append('%s: no path without facts' % ep['name'])
    return npaths, prog


def main(tier):
    rep = Report('C16', tier, level='proof')
    rep.undecided = ('"all choices agree on results" (functional equivalence of the variants) is not decided here; CPUID leaf-7 availability '
                     '(max basic leaf) is outside the examined bits')
    rep.explanation = ('Path-sensitive static evaluation of all dispatch resolvers from the assembled objects of the current tree: every path '
                       'is enumerated, the feature/OS facts established on it are computed, and the ISA classes of every instruction reachable '
                       'from the selected symbol (asm CFG + calls, through C wrappers via the LLVM IR call graph) must be implied by those facts '
                       'under an explicit dependency relation. Nothing is executed; CPUID/XGETBV are interpreted symbolically per path.')
    rep.trusted = ['nasm 2.16 assembly and objdump decoding of instruction bytes', 'tools/isa.py mnemonic/encoding -> ISA class table (fail-closed)',
                   'dependency relation IMPLIES/OS_NEED printed in this evidence', 'clang 14 IR for C call graph and target-features']
    ss = srcset.get()
    R_flags = rep.rule('S-NO-ISA-CFLAGS', 'the build passes no -m<isa>/-march option to C code (C bodies are baseline x86-64)', floor=1, unit='flag sets')
    R_flags.instance()
    R_flags.check(not ss.isa_cflags, 'Makefile.am:AM_CFLAGS', 'ISA-enabling compiler options present: %s' % ss.isa_cflags, sample='AM_CFLAGS has no -m<isa> option')
    counts = collections.Counter()
    configs = ['default', 'asfeat6', 'asfeat4']  # all three assembler feature levels cost < 6 s together
    total = 0
    for c in configs:
        n, prog = analyse_config(rep, c, counts)
        total += n
        rep.analysed['%s.resolver_paths' % c] = n
        rep.analysed['%s.asm_units' % c] = len(prog.units)
        rep.analysed['%s.asm_functions' % c] = len(prog.asm)
        rep.analysed['%s.c_functions' % c] = sum(len(m.funcs) for m in prog.mods.values())
    rep.extra['dependency_relation'] = {k: v for k, v in IMPLIES.items()}
    rep.extra['os_state_requirements'] = {k: sorted(v) for k, v in OS_NEED.items()}
    rep.extra['configs'] = configs
    return rep.finish()
