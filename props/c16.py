"""C16 - the dispatcher only selects code the CPU and OS can execute (selection clause).
For every multibinary entry point, every path through its resolver: the ISA classes of all
instructions reachable from the selected symbol are implied by the feature/OS facts the
path established."""
import collections, re
from common import Report, AnalysisBroken
import srcset, asmdb, facts, isa
from program import Program

# explicit dependency relation between feature bits ("dependency-closed assignments")
IMPLIES = {
    'SSE4.2': ['SSE4.1'], 'SSE4.1': ['SSSE3'], 'SSSE3': ['SSE3'],
    'AVX': ['SSE4.2'], 'AVX2': ['AVX'], 'AVX512F': ['AVX2'],
    'AVX512DQ': ['AVX512F'], 'AVX512CD': ['AVX512F'], 'AVX512BW': ['AVX512F'], 'AVX512VL': ['AVX512F'],
    'AVX512VBMI2': ['AVX512F'], 'AVX512VBMI': ['AVX512F'], 'AVX512VNNI': ['AVX512F'], 'AVX512BITALG': ['AVX512F'],
    'AVX512VPOPCNTDQ': ['AVX512F'], 'AVX512IFMA': ['AVX512F'],
}
OS_NEED = {'OS.AVX': {'OSXSAVE', 'XCR0.SSE', 'XCR0.AVX'},
           'OS.AVX512': {'OSXSAVE', 'XCR0.SSE', 'XCR0.AVX', 'XCR0.OPMASK', 'XCR0.ZMMHI', 'XCR0.HI16'}}
FLOOR_ENTRIES = 42


def closure(fs):
    out = set(fs)
    work = list(fs)
    while work:
        x = work.pop()
        for y in IMPLIES.get(x, ()):
            if y not in out:
                out.add(y)
                work.append(y)
    for tok, need in OS_NEED.items():
        if need <= fs:
            out.add(tok)
    return out


def trace_text(u, trace):
    parts = []
    for i, taken in trace:
        parts.append('%s%s@%s' % (i.mn, '' if taken else '(not)', ('%s:%d' % (i.line[0].split('/')[-1], i.line[1])) if i.line else hex(i.addr)))
    return ' -> '.join(parts)


def analyse_config(rep, config, class_counts):
    prog = Program(config)
    R_paths = rep.rule('D-PATHS[%s]' % config, 'every resolver path is enumerated, ends in exactly one 64-bit store of a library symbol into its own slot, executes xgetbv only after seeing OSXSAVE',
                       floor=FLOOR_ENTRIES if config == 'default' else 30, unit='entry points')
    R_imp = rep.rule('D-IMPLIES[%s]' % config, 'ISA classes of every instruction reachable from the selected symbol are implied by the facts of the path (per path)',
                     floor=FLOOR_ENTRIES if config == 'default' else 30, unit='entry points')
    R_fb = rep.rule('D-FALLBACK[%s]' % config, 'a path that establishes no feature fact selects code with baseline requirements only', floor=30, unit='entry points')
    reqcache = {}
    npaths = 0
    selections = {}
    for un, u in sorted(prog.units.items()):
        eps = facts.find_entry_points(u)
        for ep in sorted(eps, key=lambda e: e['name']):
            R_paths.instance()
            R_imp.instance()
            paths = facts.resolver_paths(u, ep['resolver'])
            npaths += len(paths)
            missing = collections.OrderedDict()
            has_nofact = False
            for p in paths:
                where = '%s:%s_dispatch path[%s]' % (un, ep['name'], trace_text(u, p.trace))
                ok = True
                for pr in p.problems:
                    R_paths.fail(where, pr, key='D-PATHS|%s|%s' % (ep['name'], pr.split(' at ')[0]))
                    ok = False
                if p.nstores != 1 or not p.stored or p.stored[0] != 'SYM' or p.stored[2] != 0:
                    R_paths.fail(where, 'path does not end in exactly one store of a symbol address (stores=%d value=%s)' % (p.nstores, p.stored),
                                 key='D-PATHS|%s|store' % ep['name'])
                    continue
                if not p.slot or p.slot[1] != ep['slot'] or p.slot[2] != 0:
                    R_paths.fail(where, 'store goes to %s, not to the entry point\'s own slot %s' % (p.slot, ep['slot']), key='D-PATHS|%s|slot' % ep['name'])
                    continue
                if ok:
                    R_paths.ok(1, sample='%s: facts=%s -> %s' % (ep['name'], sorted(p.facts), p.stored[1]) if len(p.facts) in (0, 9) else None)
                sym = p.stored[1]
                selections.setdefault(ep['name'], []).append((p, sym, where))
                if sym not in reqcache:
                    reqcache[sym] = prog.requirement(sym)
                req, problems, seen = reqcache[sym]
                for pr in problems:
                    R_imp.fail('%s:%s' % (un, ep['name']), 'cannot bound the code reachable from %s: %s' % (sym, pr), key='D-IMPLIES|%s|%s|reach' % (ep['name'], sym))
                avail = closure(set(p.facts))
                if not p.facts:
                    has_nofact = True
                    R_fb.instance()
                    hard = [t for t in req if not t.startswith('soft:')]
                    R_fb.check(not hard, where, 'no-feature path selects %s which needs %s' % (sym, sorted(hard)), key='D-FALLBACK|%s|%s' % (ep['name'], sym),
                               sample='%s: no facts -> %s (baseline)' % (ep['name'], sym))
                bad = [t for t in req if not t.startswith('soft:') and t not in avail]
                if bad:
                    for t in bad:
                        missing.setdefault((sym, t), []).append((where, sorted(p.facts), req[t]))
                else:
                    R_imp.ok(1, sample='%s -> %s needs %s, path facts %s' % (ep['name'], sym, sorted(t for t in req if not t.startswith('soft:')), sorted(p.facts)) if len(p.facts) > 8 else None)
                for t in req:
                    class_counts[t] += 0
            for (sym, t), lst in missing.items():
                where, fs, wit = lst[0]
                R_imp.fail(where, 'entry %s selects %s on %d path(s) whose facts %s do not imply %s, needed by %s'
                           % (ep['name'], sym, len(lst), fs, t, wit), key='D-IMPLIES|%s|%s|%s' % (ep['name'], sym, t),
                           entry=ep['name'], selected=sym, token=t, paths=len(lst))
            if not has_nofact:
                R_fb.notes.append('%s: no path without facts' % ep['name'])
    family_names(rep, config, selections)
    agree_tableformat(rep, config, selections, reqcache, prog)
    return npaths, prog


# consumers: every public entry point whose header comment says its tables are "generated from coding coefficients in ec_init_tables()" (erasure_code.h)
COUPLED = {'producer': 'ec_init_tables', 'consumers': ['ec_encode_data', 'ec_encode_data_update', 'gf_vect_dot_prod', 'gf_vect_mad']}


def neg_clauses(p):
    """negative knowledge of a path as clauses 'not all of these facts hold'; None if a constraint is not of that form"""
    out = []
    for n in p.neg:
        if n.startswith('!all(') and n.endswith(')'):
            out.append(frozenset(n[5:-1].split(',')))
        elif n.startswith('!'):
            out.append(frozenset([n[1:]]))
        elif n.startswith('?some-of('):
            continue        # positive disjunction: ignoring it can only make a path pair look feasible when both classes agree anyway or, if they differ, is reported as undecidable below
        else:
            return None
    return out


def feasible(p):
    c = neg_clauses(p)
    if c is None:
        return None
    F = closure(set(p.facts))
    return not any(cl <= F for cl in c)


# which implementations belong to which entry point is fixed by the library's naming: <entry>_<variant>; the entry points whose implementations are named differently are listed
FAMILY = {
    'gen_icf_map_lh1': r'^gen_icf_map_l?h1_(base|\d+)$',
    'isal_adler32': r'^adler32_\w+$',
    'isal_deflate_hash_lvl0': r'^isal_deflate_hash_(base|crc_\d+)$', 'isal_deflate_hash_lvl1': r'^isal_deflate_hash_(base|crc_\d+)$', 'isal_deflate_hash_lvl2': r'^isal_deflate_hash_(base|crc_\d+)$',
    'isal_deflate_hash_lvl3': r'^isal_deflate_hash_(base|mad_base|mad_\d+)$',
    'isal_deflate_icf_body_lvl1': r'^isal_deflate_icf_body_hash_hist_(base|\d+)$', 'isal_deflate_icf_body_lvl2': r'^isal_deflate_icf_body_hash_hist_(base|\d+)$',
    'isal_deflate_icf_body_lvl3': r'^icf_body_(lazyhash1|hash1)_fillgreedy_(greedy|lazy)$',
    'isal_deflate_icf_finish_lvl1': r'^isal_deflate_icf_finish_hash_hist_(base|\d+)$', 'isal_deflate_icf_finish_lvl2': r'^isal_deflate_icf_finish_hash_hist_(base|\d+)$',
    'isal_deflate_icf_finish_lvl3': r'^isal_deflate_icf_finish_hash_map_(base|\d+)$',
    'isal_zero_detect': r'^mem_zero_detect_\w+$',
}


def family_names(rep, config, selections):
    R = rep.rule('D-FAMILY[%s]' % config, 'every symbol a resolver can select for entry point E is an implementation of E: its name is E_<variant> (or matches the pattern listed for the 13 entry points whose '
                 'implementations are named differently): no CPU configuration gets a sibling function - another polynomial, the reflected instead of the normal CRC, the update instead of the encode - behind '
                 'E\'s name', floor=30, unit='entry points')
    for e, lst in sorted(selections.items()):
        R.instance()
        pat = FAMILY.get(e, '^' + re.escape(e) + r'_\w+$')
        bad = {}
        for p, sym, where in lst:
            if not re.match(pat, sym):
                bad.setdefault(sym, where)
        for sym, where in sorted(bad.items()):
            R.fail(where, 'entry point %s can resolve to %s, which is not one of its implementations (%s): on that CPU/OS configuration the caller gets the result of another function' % (e, sym, pat),
                   key='D-FAMILY|%s|%s' % (e, sym))
        if not bad:
            R.ok(1, sample='%s -> %s' % (e, sorted({s for _, s, _ in lst})) if e.startswith('crc64_rocksoft') else None)


def agree_tableformat(rep, config, selections, reqcache, prog):
    """the expanded coefficient tables are a format shared between ec_init_tables (writer) and the encode/update
    kernels (readers): on every CPU/OS configuration, i.e. for every jointly feasible pair of resolver paths,
    the writer's format (bytes per coefficient) must be the one the selected reader consumes."""
    import ecwrap
    R = rep.rule('D-AGREE-TABLEFMT[%s]' % config, 'for every jointly satisfiable pair of resolver paths of ec_init_tables and of ec_encode_data / ec_encode_data_update (facts of both paths, closed under the '
                 'dependency relation, contradict no negative outcome of either), the table writer selected (ec_init_tables_base: 32-byte nibble tables, ec_init_tables_gfni: 8-byte affine matrices) '
                 'matches the reader selected (a kernel set using vgf2p8affineqb reads 8-byte matrices, any other reads 32-byte tables)', floor=2, unit='entry-point pairs')
    prod = selections.get(COUPLED['producer'])
    if not prod:
        raise AnalysisBroken('D-AGREE-TABLEFMT[%s]: entry point %s has no resolver paths' % (config, COUPLED['producer']))
    s_base, s_gfni = ecwrap.table_stride()
    fmt_of_writer = {'ec_init_tables_base': s_base, 'ec_init_tables_gfni': s_gfni}
    for cons in COUPLED['consumers']:
        cl = selections.get(cons)
        if not cl:
            raise AnalysisBroken('D-AGREE-TABLEFMT[%s]: entry point %s has no resolver paths' % (config, cons))
        R.instance()
        npairs = 0
        reported = set()
        for p1, s1, w1 in prod:
            if s1 not in fmt_of_writer or fmt_of_writer[s1] is None:
                raise AnalysisBroken('D-AGREE-TABLEFMT[%s]: ec_init_tables selects %s whose table format is unknown' % (config, s1))
            c1 = neg_clauses(p1)
            for p2, s2, w2 in cl:
                c2 = neg_clauses(p2)
                if c1 is None or c2 is None:
                    raise AnalysisBroken('D-AGREE-TABLEFMT[%s]: a resolver path has a branch outcome that is not a feature test (%s / %s)' % (config, sorted(p1.neg), sorted(p2.neg)))
                F = closure(set(p1.facts) | set(p2.facts))
                if any(c <= F for c in c1 + c2):
                    continue
                npairs += 1
                req = reqcache[s2][0]
                reader = s_gfni if 'GFNI' in req else s_base
                writer = fmt_of_writer[s1]
                if reader != writer:
                    if (s1, s2) in reported:
                        continue
                    reported.add((s1, s2))
                    R.fail(w2, 'on a CPU/OS with facts %s (and not %s) ec_init_tables selects %s (%d bytes per coefficient) while %s selects %s, which %s: every table row is misread'
                           % (sorted(F), sorted(set(p1.neg) | set(p2.neg)), s1, writer, cons, s2,
                              'uses vgf2p8affineqb on 8-byte matrices (%s)' % req['GFNI'] if 'GFNI' in req else 'reads 32-byte nibble tables'),
                           key='D-AGREE-TABLEFMT|%s|%s|%s' % (cons, s1, s2))
        if not npairs:
            raise AnalysisBroken('D-AGREE-TABLEFMT[%s]: no jointly feasible path pair for %s' % (config, cons))
        if not reported:
            R.ok(npairs, sample='%s x %s: %d feasible path pairs, formats agree' % (COUPLED['producer'], cons, npairs))


def check_tablefmt(rep, consumers=('ec_encode_data', 'ec_encode_data_update')):
    """D-AGREE-TABLEFMT of the default configuration, for the properties whose statement includes "tables built with the builder that matches the consumer" (C03, C09, C12, C13);
    each of them names the consumers its statement is about (C03: encode and dot product, C13: update and multiply-accumulate)"""
    tmp = Report('C16', 'quick', level='other')
    saved = COUPLED['consumers']
    COUPLED['consumers'] = list(consumers)
    try:
        analyse_config(tmp, 'default', collections.Counter())
    finally:
        COUPLED['consumers'] = saved
    got = [r for r in tmp.rules if r.id.startswith('D-AGREE-TABLEFMT')]
    if not got:
        raise AnalysisBroken('D-AGREE-TABLEFMT was not evaluated')
    rep.rules += got


def main(tier):
    rep = Report('C16', tier, level='proof')
    rep.undecided = ('"all choices agree on results" (functional equivalence of the variants) is not decided here; CPUID leaf-7 availability '
                     '(max basic leaf) is outside the examined bits')
    rep.explanation = ('Path-sensitive static evaluation of all dispatch resolvers from the assembled objects of the current tree: every path '
                       'is enumerated, the feature/OS facts established on it are computed, and the ISA classes of every instruction reachable '
                       'from the selected symbol (asm CFG + calls, through C wrappers via the LLVM IR call graph) must be implied by those facts '
                       'under an explicit dependency relation. Nothing is executed; CPUID/XGETBV are interpreted symbolically per path.')
    rep.trusted = ['nasm 2.16 assembly and objdump decoding of instruction bytes', 'tools/isa.py mnemonic/encoding -> ISA class table (fail-closed)',
                   'dependency relation IMPLIES/OS_NEED printed in this evidence', 'clang 14 IR for C call graph and target-features']
    ss = srcset.get()
    R_flags = rep.rule('S-NO-ISA-CFLAGS', 'the build passes no -m<isa>/-march option to C code (C bodies are baseline x86-64)', floor=1, unit='flag sets')
    R_flags.instance()
    R_flags.check(not ss.isa_cflags, 'Makefile.am:AM_CFLAGS', 'ISA-enabling compiler options present: %s' % ss.isa_cflags, sample='AM_CFLAGS has no -m<isa> option')
    counts = collections.Counter()
    configs = ['default', 'asfeat6', 'asfeat4']  # all three assembler feature levels cost < 6 s together
    total = 0
    for c in configs:
        r_ = rep.attempt(analyse_config, rep, c, counts)     # a configuration that cannot be built is reported as broken without hiding what the others show
        if r_ is None:
            continue
        n, prog = r_
        total += n
        rep.analysed['%s.resolver_paths' % c] = n
        rep.analysed['%s.asm_units' % c] = len(prog.units)
        rep.analysed['%s.asm_functions' % c] = len(prog.asm)
        rep.analysed['%s.c_functions' % c] = sum(len(m.funcs) for m in prog.mods.values())
    rep.extra['dependency_relation'] = {k: v for k, v in IMPLIES.items()}
    rep.extra['os_state_requirements'] = {k: sorted(v) for k, v in OS_NEED.items()}
    rep.extra['configs'] = configs
    return rep.finish()
