"""C03 - EC encode equals the GF(2^8) matrix product in every ISA variant.  Decided
(structural): the row-batching wrappers of all six ISA families (stride, pointer advance,
remainder arms, family, hand-off length); every dot-product kernel stores only through its
destination pointers, reads sources only through the source array, tables only through
the table pointer, and never reads its (write-only) outputs; every compare is consumed."""
from common import Report, AnalysisBroken
import provenance, ecwrap, gftype
from provenance import base_tag, elem_index
from asmflow import tag_name

UNDECIDED = ('the arithmetic inside the kernels (shuffles, table offsets, tail blending, masks), i.e. that the bytes written are the GF(2^8) products; '
             'length bounds of the accesses (would need a relational numeric domain over loop counters and AVX-512 masks)')


def check_kernel_stores(rep, stem, rid, floor):
    R = rep.rule(rid, 'every store of a %s kernel goes through one of its declared destination pointers (dest[j], 0<=j<arity) or its own stack frame; sources/tables/globals are never written; '
                 'source data is read only through the source argument, tables only through the table argument' % stem, floor=floor, unit='kernels')
    RD = rep.rule('L-DEADCMP-' + stem.upper().replace('_', ''), 'every flag-setting compare in the kernels is consumed by a branch/cmov/setcc before the flags are redefined', floor=floor, unit='kernels')
    res, nofam = provenance.analyse('default')
    fams = {'dot_prod': 'ec_dot_prod', 'mad': 'ec_mad', 'mul': 'ec_mul'}
    for sym, info in sorted(res.items()):
        fam = info['fam']
        if fam['family'] != fams[stem]:
            continue
        R.instance()
        RD.instance()
        u, f = info['unit'], info['func']
        ar = fam['arity']
        for a in info['accesses']:
            bt = base_tag(a.addr)
            where = '%s: %s' % (u.name, u.where(a.insn, f))
            key = '%s|%s|%s|%s' % (rid, sym, a.kind, tag_name(a.addr))
            if a.kind in ('store', 'rmw'):
                if bt == 'STACK':
                    R.ok()
                elif bt == 'DEST' and ar == 1:
                    R.ok(1, sample='%s: store via dest' % sym if sym.endswith('_sse') else None)
                elif bt == 'DESTARR[]':
                    idx = elem_index(a.addr)
                    ok = idx is not None and idx != 'n/a' and idx[1] == 0 and idx[0] % 8 == 0 and 0 <= idx[0] // 8 < ar
                    R.check(ok, where, 'store through dest[%s] of a %d-output kernel' % ('?' if idx is None else idx[0] // 8, ar), key=key)
                else:
                    R.fail(where, 'store through %s: only the destination buffers may be written' % tag_name(a.addr), key=key)
            else:
                if stem == 'dot_prod':
                    allowed = {'TBL', 'SRCARR', 'SRCARR[]', 'DESTARR', 'STACK', 'GLOBAL'}
                    if bt in ('DEST', 'DESTARR[]'):
                        R.fail(where, 'load through an output buffer pointer (%s): encode outputs are write-only, and for short lengths the bytes lie outside every declared range' % tag_name(a.addr), key=key)
                        continue
                elif stem == 'mad':
                    allowed = {'TBL', 'SRC', 'DESTARR', 'DESTARR[]', 'DEST', 'STACK', 'GLOBAL'}
                else:
                    allowed = {'TBL', 'SRC', 'STACK', 'GLOBAL'}
                R.check(bt in allowed, where, 'load through %s (allowed: %s)' % (tag_name(a.addr), sorted(allowed)), key=key)
        dead = provenance.dead_compares(u, f)
        n = provenance.count_compares(u, f)
        RD.ok(n - len(dead))
        for i in dead:
            RD.fail('%s: %s' % (u.name, u.where(i, f)), 'result of this compare is never consumed', key='L-DEADCMP|%s|%#x' % (sym, i.addr - f.entry))


def main(tier):
    rep = Report('C03', tier, level='other')
    rep.undecided = UNDECIDED
    rep.explanation = ('(1) AST lint of the six ec_encode_data_<isa> wrappers against the resolved kernel names: loop/stride/arm/ISA-family agreement, with the per-coefficient '
                       'table stride read from the initialisers and the fallback threshold compared with each kernel\'s entry guard extracted from the assembled code by an affine '
                       'dataflow (siblings must agree because the wrappers ignore the kernels\' return value). (2) Pointer-provenance dataflow (ASMFLOW origin x affine) over every '
                       'gf_<n>vect_dot_prod_<isa> kernel: each store/load is attributed to the argument object it derives from. These hold or fail for all inputs; five of the six '
                       'families are never executed by the test suite on this host. Kernel arithmetic is not decided.')
    rep.trusted = ['nasm/objdump decoding', 'ASMFLOW transfer functions (fail-closed: an unmodelled GPR-writing instruction or an address of unknown provenance is reported)',
                   'SysV argument roles from include/erasure_code.h', 'clang AST']
    rep.attempt(ecwrap.check_wrappers, rep, 'encode')
    rep.attempt(check_kernel_stores, rep, 'dot_prod', 'P-EC-STORE', 33)
    rep.attempt(provenance.check_undef, rep, {'ec_dot_prod'}, 'EC', 33)
    rep.attempt(provenance.check_kwidth, rep, {'ec_dot_prod'}, 'EC', 33)
    rep.attempt(gftype.check, rep, {'ec_dot_prod'}, 'EC', 33)
    import bounds
    rep.attempt(bounds.check, rep, {'ec_dot_prod'}, 'EC', 33)
    import guardloop
    rep.attempt(guardloop.check, rep, 'EC', r'^erasure_code/.*dot_prod', 8)
    import deadvdef
    rep.attempt(deadvdef.check, rep, 'EC', r'^erasure_code/.*dot_prod', 900)
    import gfrows
    rep.attempt(gfrows.check_dot, rep, 33)
    import baseloops
    rep.attempt(baseloops.check, rep, 'EC', ['ec_encode_data_base', 'gf_vect_dot_prod_base', 'ec_init_tables_base'], 5)
    import tbladvance
    rep.attempt(tbladvance.check, rep, 'EC', {'ec_dot_prod'}, 150)
    import eclayout
    rep.attempt(eclayout.check, rep, 'EC', ['ec_encode_data_base', 'gf_vect_dot_prod_base'], 3, writer=True)
    import stridecover
    rep.attempt(stridecover.check, rep, 'EC', {'ec_dot_prod'}, 400)
    import gfhalf
    rep.attempt(gfhalf.check, rep, 'EC', {'ec_dot_prod'}, 'rdx', (), 160)
    import tailguard, earlypass
    rep.attempt(tailguard.check, rep, 'EC', {'ec_dot_prod'}, 30, 20)
    rep.attempt(earlypass.check, rep, 'EC', {'ec_dot_prod'}, 0)
    import samecell
    rep.attempt(samecell.check, rep, 'EC', {'ec_dot_prod'}, ['SRCARR[]'], ['DESTARR[]', 'DEST'], 150, typed=True)
    import lanemacro
    rep.attempt(lanemacro.check, rep, 'EC', {'ec_dot_prod'}, 290)
    import c16
    rep.attempt(c16.check_tablefmt, rep, ('ec_encode_data', 'gf_vect_dot_prod'))
    return rep.finish()
