"""C02 - decompression reproduces every valid stream.  Decided (structural): the
pre-generated inflate lookup tables decode exactly the code they claim to serve (fixed code;
this build's default-table header) in all three window configurations; RFC length/distance
tables (C and asm copies); lookup-entry layout constants and struct offsets shared by the C
table builder and the two asm decoders."""
import struct, re
from common import Report, AnalysisBroken
import cbuild, srcset, asmdb, mirror
import rfc1951 as R
from elf import Elf

CONFIGS = ['default', 'hist8k', 'longhuff']
UNDECIDED = 'decoding of arbitrary valid streams (table construction for dynamic blocks, the decode loops, bit accounting at finish)'
KNAMES = ['LARGE_SHORT_SYM_LEN', 'LARGE_SHORT_SYM_MASK', 'LARGE_LONG_SYM_LEN', 'LARGE_LONG_SYM_MASK', 'LARGE_SHORT_CODE_LEN_OFFSET',
          'LARGE_LONG_CODE_LEN_OFFSET', 'LARGE_FLAG_BIT_OFFSET', 'LARGE_FLAG_BIT', 'LARGE_SYM_COUNT_OFFSET', 'LARGE_SYM_COUNT_LEN',
          'LARGE_SYM_COUNT_MASK', 'LARGE_SHORT_MAX_LEN_OFFSET', 'SMALL_SHORT_SYM_LEN', 'SMALL_SHORT_SYM_MASK', 'SMALL_LONG_SYM_LEN',
          'SMALL_LONG_SYM_MASK', 'SMALL_SHORT_CODE_LEN_OFFSET', 'SMALL_LONG_CODE_LEN_OFFSET', 'SMALL_FLAG_BIT_OFFSET', 'SMALL_FLAG_BIT',
          'DIST_SYM_OFFSET', 'DIST_SYM_LEN', 'DIST_SYM_MASK', 'DIST_SYM_EXTRA_OFFSET', 'DIST_SYM_EXTRA_LEN', 'DIST_SYM_EXTRA_MASK',
          'ISAL_DECODE_LONG_BITS', 'ISAL_DECODE_SHORT_BITS']


def expand_litlen(ll, lc):
    """(lsb-first bit pattern, total bits incl. extra, decoded value) for every lit/len code
    with its length extra bits expanded.  value: literal 0..255, 256 EOB, 254+L for length L,
    None for the undefined symbols 286/287."""
    out = []
    for s, l in enumerate(ll):
        if not l:
            continue
        c = R.rev(lc[s], l)
        if s <= 256:
            out.append((c, l, s))
        elif s <= 285:
            i = s - 257
            for x in range(1 << R.LEN_EXTRA[i]):
                L = R.LEN_BASE[i] + x
                if s == 284 and L == 258:
                    # symbol 284 with extra value 31: not a code of RFC 1951, accepted as length 258 by ISA-L
                    # (and zlib); a cell may either reject it or decode it as 258
                    out.append((c | (x << l), l + R.LEN_EXTRA[i], ('opt258',)))
                    continue
                out.append((c | (x << l), l + R.LEN_EXTRA[i], 254 + L))
        else:
            out.append((c, l, None))
    return out


def match(codes, bits, avail):
    for c, n, s in codes:
        if n <= avail and (bits & ((1 << n) - 1)) == c:
            return (c, n, s)
    return None


def prefix_of(codes, bits, nb):
    return [(c, n, s) for c, n, s in codes if n > nb and (c & ((1 << nb) - 1)) == bits]


def check_large(Rr, K, short, longt, ll, W, key):
    LONGB = K['ISAL_DECODE_LONG_BITS']
    lc = R.canonical(ll)
    codes = expand_litlen(ll, lc)
    FLAG = K['LARGE_FLAG_BIT']
    stats = dict(single=0, double=0, triple=0, longredir=0, invalid=0)
    for i in range(1 << LONGB):
        e = short[i]
        where = '%s.short_code_lookup[%d]' % (W, i)
        if e & FLAG:
            off = e & ((1 << K['LARGE_FLAG_BIT_OFFSET']) - 1)
            maxlen = e >> K['LARGE_SHORT_MAX_LEN_OFFSET']
            ext = prefix_of(codes, i, LONGB)
            if not ext:
                Rr.fail(where, 'long-code redirect but no code longer than %d bits has this prefix' % LONGB, key=key)
                continue
            if maxlen < max(n for c, n, s in ext if s is not None or True) - 0 and False:
                pass
            stats['longredir'] += 1
            ok = True
            need = max(x[1] for x in ext)
            if maxlen < min(need, 15 + 0) and maxlen < max(l for l in ll):
                pass
            for hi in range(1 << (maxlen - LONGB)):
                bits = i | (hi << LONGB)
                if off + hi >= len(longt):
                    Rr.fail(where, 'long-code redirect beyond the long table (offset %d + %d)' % (off, hi), key=key)
                    ok = False
                    break
                e16 = longt[off + hi]
                sym = e16 & K['LARGE_LONG_SYM_MASK']
                n = e16 >> K['LARGE_LONG_CODE_LEN_OFFSET']
                m = match(codes, bits, maxlen)
                if m is None:
                    if n != 0:
                        Rr.fail(where, 'long entry %#x for bits %#x which are no code of at most %d bits' % (e16, bits, maxlen), key=key)
                        ok = False
                else:
                    if m[2] is None:
                        continue
                    if m[2] == ('opt258',):
                        if n != 0 and (n, sym) != (m[1], 254 + 258):
                            Rr.fail(where, 'long entry for symbol 284/extra 31 must be invalid or length 258', key=key)
                            ok = False
                        continue
                    if (m[1], m[2]) != (n, sym):
                        Rr.fail(where, 'long entry decodes (len %d, sym %d), canonical code gives (len %d, sym %d)' % (n, sym, m[1], m[2]), key=key)
                        ok = False
            # every code with this prefix must be reachable within maxlen bits
            for c, n, s in ext:
                if n > maxlen and s is not None:
                    Rr.fail(where, 'code of %d bits with this prefix exceeds the redirect\'s max length %d' % (n, maxlen), key=key)
                    ok = False
            if ok:
                Rr.ok()
        else:
            n = e >> K['LARGE_SHORT_CODE_LEN_OFFSET']
            cnt = (e >> K['LARGE_SYM_COUNT_OFFSET']) & K['LARGE_SYM_COUNT_MASK']
            syms = e & K['LARGE_SHORT_SYM_MASK']
            m = match(codes, i, LONGB)
            if m is not None and m[2] == ('opt258',):
                if n == 0 or (cnt == 1 and n == m[1] and syms == 512):
                    Rr.ok()
                else:
                    Rr.fail(where, 'entry for symbol 284/extra 31 must be invalid or length 258', key=key)
                continue
            if n == 0:
                stats['invalid'] += 1
                bad = False
                if m is not None and m[2] is not None:
                    Rr.fail(where, 'marked invalid but the bits decode to symbol %s in %d bits' % (m[2], m[1]), key=key)
                    bad = True
                if prefix_of(codes, i, LONGB):
                    Rr.fail(where, 'marked invalid but is a prefix of a longer code', key=key)
                    bad = True
                if not bad:
                    Rr.ok()
                continue
            if m is None:
                Rr.fail(where, 'entry %#x for an index no code matches' % e, key=key)
                continue
            if cnt < 1 or cnt > 3:
                Rr.fail(where, 'symbol count %d' % cnt, key=key)
                continue
            used = 0
            dec = []
            okk = True
            for k in range(cnt):
                mm = match(codes, i >> used, LONGB - used)
                if mm is None:
                    okk = False
                    break
                dec.append(512 if mm[2] == ('opt258',) else mm[2])
                used += mm[1]
            if not okk or used != n:
                Rr.fail(where, 'packed entry %#x: %d symbols in %d bits is not a prefix decode of the index (got %s in %d bits)' % (e, cnt, n, dec, used), key=key)
                continue
            got = []
            s = syms
            for k in range(cnt - 1):
                got.append(s & 0xff)
                s >>= 8
            got.append(s)
            if None in dec:
                Rr.ok()
                continue
            if got != dec or any(x >= 256 for x in dec[:-1]):
                Rr.fail(where, 'packed symbols %s, canonical decode gives %s' % (got, dec), key=key)
                continue
            stats[['single', 'double', 'triple'][cnt - 1]] += 1
            Rr.ok()
    return stats


def check_small(Rr, K, short, longt, dl, W, key):
    SHORTB = K['ISAL_DECODE_SHORT_BITS']
    dc = R.canonical(dl)
    codes = [(R.rev(dc[s], l), l, s) for s, l in enumerate(dl) if l]
    FLAG = K['SMALL_FLAG_BIT']
    st = dict(sym=0, redir=0, invalid=0)

    def fields(e16):
        return ((e16 >> K['DIST_SYM_OFFSET']) & K['DIST_SYM_MASK'], (e16 >> K['DIST_SYM_EXTRA_OFFSET']) & K['DIST_SYM_EXTRA_MASK'])
    for i in range(1 << SHORTB):
        e = short[i]
        where = '%s.short_code_lookup[%d]' % (W, i)
        if e & FLAG:
            off = e & K['SMALL_SHORT_SYM_MASK']
            maxlen = (e - FLAG) >> K['SMALL_SHORT_CODE_LEN_OFFSET']
            ext = prefix_of(codes, i, SHORTB)
            if not ext:
                Rr.fail(where, 'long-code redirect but no longer code has this prefix', key=key)
                continue
            st['redir'] += 1
            ok = True
            for hi in range(1 << (maxlen - SHORTB)):
                bits = i | (hi << SHORTB)
                if off + hi >= len(longt):
                    Rr.fail(where, 'redirect beyond the long table', key=key)
                    ok = False
                    break
                e16 = longt[off + hi]
                m = match(codes, bits, maxlen)
                n = e16 >> K['SMALL_LONG_CODE_LEN_OFFSET']
                if m is None:
                    if n != 0:
                        Rr.fail(where, 'long entry for undecodable bits', key=key)
                        ok = False
                else:
                    if m[2] >= 30:
                        continue
                    sy, xb = fields(e16)
                    if (sy, xb, n) != (m[2], R.DIST_EXTRA[m[2]], m[1]):
                        Rr.fail(where, 'long entry (sym %d, extra %d, len %d), canonical code gives (%d, %d, %d)' % (sy, xb, n, m[2], R.DIST_EXTRA[m[2]], m[1]), key=key)
                        ok = False
            for c, n, s in ext:
                if n > maxlen and s < 30:
                    Rr.fail(where, 'code of %d bits exceeds redirect max length %d' % (n, maxlen), key=key)
                    ok = False
            if ok:
                Rr.ok()
        else:
            n = e >> K['SMALL_SHORT_CODE_LEN_OFFSET']
            m = match(codes, i, SHORTB)
            if n == 0:
                st['invalid'] += 1
                if m is not None and m[2] < 30:
                    Rr.fail(where, 'marked invalid but decodes to distance symbol %d' % m[2], key=key)
                elif prefix_of(codes, i, SHORTB) and any(s < 30 for c, nn, s in prefix_of(codes, i, SHORTB)):
                    Rr.fail(where, 'marked invalid but is a prefix of a longer code', key=key)
                else:
                    Rr.ok()
                continue
            if m is None:
                Rr.fail(where, 'entry %#x for an index no code matches' % e, key=key)
                continue
            if m[2] >= 30:
                Rr.ok()
                continue
            sy, xb = fields(e)
            if (sy, xb, n) != (m[2], R.DIST_EXTRA[m[2]], m[1]):
                Rr.fail(where, 'entry (sym %d, extra %d, len %d), canonical code gives (%d, %d, %d)' % (sy, xb, n, m[2], R.DIST_EXTRA[m[2]], m[1]), key=key)
            else:
                st['sym'] += 1
                Rr.ok()
    return st


def load_tables(e, prefix, K, lay):
    rl = e.symbytes(prefix + '_lit_huff_code')
    rd = e.symbytes(prefix + '_dist_huff_code')
    if rl is None or rd is None:
        return None
    nshort = 1 << K['ISAL_DECODE_LONG_BITS']
    short = struct.unpack_from('<%dI' % nshort, rl, lay['large.short'])
    longl = struct.unpack_from('<%dH' % ((len(rl) - lay['large.long']) // 2), rl, lay['large.long'])
    ns = 1 << K['ISAL_DECODE_SHORT_BITS']
    sshort = struct.unpack_from('<%dH' % ns, rd, lay['small.short'])
    slong = struct.unpack_from('<%dH' % ((len(rd) - lay['small.long']) // 2), rd, lay['small.long'])
    return short, longl, sshort, slong


def check_pregen(rep, config):
    Rr = rep.rule('T-INFL-PREGEN[%s]' % config, 'every cell of the pre-generated inflate lookup tables decodes the code it is installed for (fixed code; this build\'s hufftables_default header)',
                  floor=2, unit='tables')
    K, drop = mirror.c_values(config, ['igzip_inflate.c'], [(n, n) for n in KNAMES], 'infl_k')
    if drop:
        raise AnalysisBroken('inflate layout constants missing from igzip_inflate.c: %s' % drop)
    lay = cbuild.probe_c(config, ['igzip_lib.h'], [('large.short', 'offsetof(struct inflate_huff_code_large, short_code_lookup)'),
                                                   ('large.long', 'offsetof(struct inflate_huff_code_large, long_code_lookup)'),
                                                   ('small.short', 'offsetof(struct inflate_huff_code_small, short_code_lookup)'),
                                                   ('small.long', 'offsetof(struct inflate_huff_code_small, long_code_lookup)')], 'infl_lay')
    e = Elf(cbuild.objs(config, ['igzip/igzip_inflate.c'])['igzip/igzip_inflate.c'])
    # is the pregen path compiled in at all?  (ISAL_STATIC_INFLATE_TABLE)
    t = load_tables(e, 'static', K, lay)
    if t is None:
        raise AnalysisBroken('static_lit_huff_code/static_dist_huff_code not found in igzip_inflate.o [%s]' % config)
    s, l, ss, sl = t
    ll = [8] * 144 + [9] * 112 + [7] * 24 + [8] * 8
    dl = [5] * 32
    Rr.instance(2)
    st1 = check_large(Rr, K, s, l, ll, 'igzip/static_inflate.h:static_lit_huff_code[%s]' % config, 'T-INFL-PREGEN|%s|static_lit' % config)
    st2 = check_small(Rr, K, ss, sl, dl, 'igzip/static_inflate.h:static_dist_huff_code[%s]' % config, 'T-INFL-PREGEN|%s|static_dist' % config)
    Rr.notes.append('static: %s %s' % (st1, st2))
    # pregen tables are installed when the incoming header equals this build's default header
    ht = Elf(cbuild.objs(config, ['igzip/hufftables_c.c'])['igzip/hufftables_c.c']).symbytes('hufftables_default')
    hl = cbuild.probe_c(config, ['igzip_lib.h'], [('hdr', 'offsetof(struct isal_hufftables, deflate_hdr)'), ('cnt', 'offsetof(struct isal_hufftables, deflate_hdr_count)'),
                                                   ('xb', 'offsetof(struct isal_hufftables, deflate_hdr_extra_bits)'), ('max', 'ISAL_DEF_MAX_HDR_SIZE')], 'ht_lay')
    cnt, extra = struct.unpack_from('<I', ht, hl['cnt'])[0], struct.unpack_from('<I', ht, hl['xb'])[0]
    bf, bt, ll, dl, used = R.parse_block_header(bytes(ht[hl['hdr']:hl['hdr'] + hl['max']]), cnt * 8 + extra)
    uses_pregen = pregen_enabled(config)
    t = load_tables(e, 'pregen', K, lay)
    if t is None:
        if uses_pregen:
            raise AnalysisBroken('pregen tables not found although header_matches_pregen can return true [%s]' % config)
        Rr.notes.append('pregen tables not compiled in for this configuration')
        return
    if not uses_pregen:
        Rr.notes.append('[%s] header_matches_pregen is compiled to "never" in this configuration: pregen tables are not installed, so they carry no obligation' % config)
        Rr.ok(1, sample='[%s] pregen path disabled at compile time' % config)
        return
    s, l, ss, sl = t
    Rr.instance(2)
    st1 = check_large(Rr, K, s, l, ll, 'igzip/static_inflate.h:pregen_lit_huff_code[%s] vs hufftables_default header' % config, 'T-INFL-PREGEN|%s|pregen_lit' % config)
    st2 = check_small(Rr, K, ss, sl, dl, 'igzip/static_inflate.h:pregen_dist_huff_code[%s] vs hufftables_default header' % config, 'T-INFL-PREGEN|%s|pregen_dist' % config)
    Rr.notes.append('pregen: %s %s' % (st1, st2))
    Rr.samples.append('[%s] pregen_lit: %s' % (config, st1))


def pregen_enabled(config):
    """does header_matches_pregen have a path returning non-zero in this configuration?  (ret-value set from the IR)"""
    ll = cbuild.lls(config, ['igzip/igzip_inflate.c'])['igzip/igzip_inflate.c']
    txt = open(ll).read()
    m = re.search(r'^define [^\n]*@header_matches_pregen\(.*?^\}', txt, re.M | re.S)
    if not m:
        raise AnalysisBroken('header_matches_pregen not found in IR [%s]' % config)
    body = m.group(0)
    # the function can return non-zero iff some value other than the constant 0 reaches its return
    stores = re.findall(r'store i32 (\S+), i32\* %retval', body)
    rets = re.findall(r'^\s*ret i32 (\S+)', body, re.M)
    if stores:
        return any(v.rstrip(',') != '0' for v in stores)
    return any(v.rstrip(',') != '0' for v in rets)


def check_rfc(rep):
    Rr = rep.rule('T-INFL-RFC', 'RFC 1951 length/distance tables of the decoders (C rfc_lookup_table, asm rfc1951_lookup_table) equal the RFC; undefined distance slots are 0', floor=7, unit='tables')
    e = Elf(cbuild.objs('default', ['igzip/igzip_inflate.c'])['igzip/igzip_inflate.c'])
    b = e.symbytes('rfc_lookup_table')
    if b is None:
        raise AnalysisBroken('rfc_lookup_table not found')
    lay = cbuild.probe_c('default', ['igzip_inflate.c'], [(f, 'offsetof(struct rfc1951_tables, %s)' % f) for f in ('dist_extra_bit_count', 'dist_start', 'len_extra_bit_count', 'len_start')] +
                         [('DIST_LEN', 'DIST_LEN'), ('LIT_LEN', 'LIT_LEN')], 'rfc_lay')
    W = 'igzip/igzip_inflate.c:rfc_lookup_table'
    dx = struct.unpack_from('<32B', b, lay['dist_extra_bit_count'])
    ds = struct.unpack_from('<32I', b, lay['dist_start'])
    lx = struct.unpack_from('<32B', b, lay['len_extra_bit_count'])
    ls = struct.unpack_from('<32H', b, lay['len_start'])
    Rr.instance(4)
    Rr.check(list(dx) == R.DIST_EXTRA + [0, 0], W + '.dist_extra_bit_count', 'differs from RFC 1951 (slots 30,31 must be 0): %s' % list(dx))
    Rr.check(list(ds) == R.DIST_BASE + [0, 0], W + '.dist_start', 'differs from RFC 1951 (slots 30,31 must be 0)', sample='dist_start == RFC 3.2.5, slots 30/31 zero')
    Rr.check(list(lx[:29]) == R.LEN_EXTRA and not any(lx[29:]), W + '.len_extra_bit_count', 'differs from RFC 1951')
    Rr.check(list(ls[:29]) == R.LEN_BASE, W + '.len_start', 'differs from RFC 1951 length bases')
    u = asmdb.units('default', ['igzip/rfc1951_lookup.asm'])['igzip/rfc1951_lookup.asm']
    # the asm decoders address the table through hard-coded offsets; they must be the label offsets
    base = u.elf.syms['rfc1951_lookup_table'].value
    av, adrop = mirror.asm_values('default', ['igzip_decode_block_stateless_01.asm'], ['_dist_extra_bit_count', '_dist_start', '_len_extra_bit_count', '_len_start'], 'rfcoff')
    for nm in ('_dist_extra_bit_count', '_dist_start', '_len_extra_bit_count', '_len_start'):
        lab = nm[1:]
        if nm not in av or lab not in u.elf.syms:
            raise AnalysisBroken('offset %s / label %s missing' % (nm, lab))
        Rr.instance()
        Rr.check(av[nm] == u.elf.syms[lab].value - base, 'igzip/igzip_decode_block_stateless.asm:%s' % nm,
                 'decoder uses offset %d, rfc1951_lookup.asm places %s at %d' % (av[nm], lab, u.elf.syms[lab].value - base), sample='%s = %d' % (nm, av[nm]) if nm == '_dist_start' else None)
    av2, _ = mirror.asm_values('default', ['igzip_update_histogram_01.asm'], ['_len_to_code_offset'], 'rfcoff2')
    if '_len_to_code_offset' in av2:
        Rr.instance()
        Rr.check(av2['_len_to_code_offset'] == u.elf.syms['len_to_code'].value - base, 'igzip/igzip_update_histogram.asm:_len_to_code_offset', 'offset mismatch with label len_to_code')


INFL_STRUCTS = [('inflate_huff_code_large', {'_short_code_lookup_large': 'short_code_lookup', '_long_code_lookup_large': 'long_code_lookup'}),
                ('inflate_huff_code_small', {'_short_code_lookup_small': 'short_code_lookup', '_long_code_lookup_small': 'long_code_lookup'}),
                ('inflate_state', None)]
INFL_DERIVED = {'_lit_huff_code_short_code_lookup': 'lit_huff_code.short_code_lookup', '_lit_huff_code_long_code_lookup': 'lit_huff_code.long_code_lookup',
                '_dist_huff_code_short_code_lookup': 'dist_huff_code.short_code_lookup', '_dist_huff_code_long_code_lookup': 'dist_huff_code.long_code_lookup'}
INFL_CONST_ALIAS = {'DECOMP_OK': 'ISAL_DECOMP_OK', 'END_INPUT': 'ISAL_END_INPUT', 'OUT_OVERFLOW': 'ISAL_OUT_OVERFLOW', 'INVALID_BLOCK': 'ISAL_INVALID_BLOCK',
                    'INVALID_SYMBOL': 'ISAL_INVALID_SYMBOL', 'INVALID_LOOKBACK': 'ISAL_INVALID_LOOKBACK',
                    'HUFF_CODE_LARGE_LONG_ALIGNED': 'ISAL_HUFF_CODE_LARGE_LONG_ALIGNED', 'HUFF_CODE_SMALL_LONG_ALIGNED': 'ISAL_HUFF_CODE_SMALL_LONG_ALIGNED',
                    'L_REM': 'ISAL_L_REM', 'S_REM': 'ISAL_S_REM', 'L_DUP': 'ISAL_L_DUP', 'S_DUP': 'ISAL_S_DUP', 'L_UNUSED': 'ISAL_L_UNUSED', 'S_UNUSED': 'ISAL_S_UNUSED',
                    'L_SIZE': 'ISAL_L_SIZE', 'S_SIZE': 'ISAL_S_SIZE', 'COPY_LEN_MAX': 'ISAL_DEF_MAX_MATCH',
                    'LARGE_SHORT_CODE_SIZE': 'sizeof(((struct inflate_huff_code_large*)0)->short_code_lookup[0])',
                    'LARGE_LONG_CODE_SIZE': 'sizeof(((struct inflate_huff_code_large*)0)->long_code_lookup[0])',
                    'SMALL_SHORT_CODE_SIZE': 'sizeof(((struct inflate_huff_code_small*)0)->short_code_lookup[0])',
                    'SMALL_LONG_CODE_SIZE': 'sizeof(((struct inflate_huff_code_small*)0)->long_code_lookup[0])'}


def check_mirror(rep, config):
    Rf = rep.rule('M-INFLATE-LAYOUT[%s]' % config, 'inflate_data_structs.asm offsets equal the C layout of struct inflate_state / inflate_huff_code_{large,small}', floor=25, unit='fields')
    Rc = rep.rule('M-INFLATE-CONST[%s]' % config, 'lookup-entry layout constants, block states and status codes agree between igzip_inflate.c (table builder) and the asm decoders (table readers)', floor=35, unit='constants')
    fields, consts = mirror.asm_names('igzip/inflate_data_structs.asm')
    f2, c2 = mirror.asm_names('igzip/igzip_decode_block_stateless.asm')
    # struct blocks in file order
    blocks = []
    cur = None
    for st, fn in fields:
        pass
    txt = open(srcset.get().inc_dirs[3] + '/inflate_data_structs.asm').read() if False else None
    # asm_names() keys FIELDs by the START_FIELDS comment, which is ambiguous here ("inflate huff code" twice): use order
    names = [fn for _, fn in fields]
    cex = []
    for st, amap in INFL_STRUCTS:
        if amap:
            for fn, member in amap.items():
                cex.append((fn, 'offsetof(struct %s, %s)' % (st, member)))
    in_state = False
    for fn in names:
        if fn == '_next_out':
            in_state = True
        if in_state:
            member = {'_copy_overflow_len': 'copy_overflow_length', '_copy_overflow_dist': 'copy_overflow_distance'}.get(fn, fn[1:])
            cex.append((fn, 'offsetof(struct inflate_state, %s)' % member))
    for d, path in INFL_DERIVED.items():
        cex.append((d, 'offsetof(struct inflate_state, %s)' % path))
    cex.append(('_inflate_huff_code_large_size', 'sizeof(struct inflate_huff_code_large)'))
    cex.append(('_inflate_huff_code_small_size', 'sizeof(struct inflate_huff_code_small)'))
    allnames = list(dict.fromkeys(names + consts + c2))
    aval, adrop = mirror.asm_values(config, ['igzip_decode_block_stateless_01.asm'], allnames, 'inflate', pre='')
    cv, cdrop = mirror.c_values(config, ['igzip_lib.h'], cex, 'inflate_layout')
    for lab, ex in cex:
        if lab not in aval:
            Rf.fail('igzip/inflate_data_structs.asm:%s' % lab, 'asm name vanished', key='M-INFLATE-LAYOUT|%s' % lab)
            continue
        if lab not in cv:
            Rf.fail('igzip/inflate_data_structs.asm:%s' % lab, 'no C member for this asm field (%s)' % ex, key='M-INFLATE-LAYOUT|%s' % lab)
            continue
        Rf.instance()
        Rf.check(aval[lab] == cv[lab], 'igzip/inflate_data_structs.asm:%s' % lab, 'asm %d, C %s = %d [%s]' % (aval[lab], ex, cv[lab], config), key='M-INFLATE-LAYOUT|%s' % lab,
                 sample='%s at %d' % (lab, cv[lab]) if lab in ('_dist_huff_code', '_copy_overflow_dist') else None)
    covered = {l for l, _ in cex}
    for fn in names:
        if fn not in covered:
            Rf.fail('igzip/inflate_data_structs.asm:%s' % fn, 'asm FIELD not mapped to any C member', key='M-INFLATE-LAYOUT|unmapped|%s' % fn)
    cands = [c for c in list(dict.fromkeys(consts + c2)) if c in aval and not c.startswith('_') and not c.endswith('_mem_offset')]
    cex2 = [(c, INFL_CONST_ALIAS.get(c, c)) for c in cands]
    cv2, cdrop2 = mirror.c_values(config, ['igzip_inflate.c'], cex2, 'inflate_consts')
    for c, v in sorted(cv2.items()):
        Rc.instance()
        Rc.check(aval[c] == v, 'asm %s vs C %s' % (c, INFL_CONST_ALIAS.get(c, c)), 'asm value %d, C value %d [%s]' % (aval[c], v, config), key='M-INFLATE-CONST|%s' % c,
                 sample='%s = %d on both sides' % (c, v) if c in ('LARGE_FLAG_BIT_OFFSET', 'INVALID_LOOKBACK') else None)
    Rc.notes.append('asm-only names: %s' % sorted(set(cdrop2)))


PARKED = ['write_overflow_lits', 'write_overflow_len', 'copy_overflow_length', 'copy_overflow_distance']


def check_rollback(rep):
    """The block decoders give up with ISAL_END_INPUT after restoring the input position they saved before the symbol group they
    could not finish, so that the whole group is decoded again by the next call.  Output that the group had already parked in the
    state (a literal that did not fit, a pending match copy) must not survive that exit, or streaming emits it twice."""
    import llir, irrules, provenance, mirror
    import c19
    from asmdb import REG64, parse_mem, is_mem
    R = rep.rule('R-ROLLBACK-CLEAN', 'asm block decoders (both kernels): at every exit that returns ISAL_END_INPUT, each parked-output field of the state (write_overflow_lits/len, '
                 'copy_overflow_length/distance) holds either the value it had on entry or a stored constant 0 - reaching-definitions of the field per exit code; a non-zero parked value never reaches the roll-back exit',
                 floor=2, unit='decoders')
    codes, _ = mirror.c_values('default', ['igzip_lib.h'], [('END', 'ISAL_END_INPUT'), ('OVF', 'ISAL_OUT_OVERFLOW')], 'c02_codes2')
    END = codes['END']
    OVF = codes['OVF']
    R3 = rep.rule('R-PARK-EOB-ADJUST', 'asm block decoders: when the literals of a packed table entry are parked (store to write_overflow_len) and a forward path from there marks the block finished (store to block_state: the '
                  'last symbol of the entry was end-of-block), the path stores write_overflow_len a second time first - the count parked at first includes the end-of-block symbol, which is not a byte to emit',
                  floor=2, unit='decoders')
    R2 = rep.rule('R-PARKED-EXITCODE', 'asm block decoders (both kernels): output that did not fit is parked in the state (write_overflow_lits/len, copy_overflow_length/distance) only together with the return code '
                  'ISAL_OUT_OVERFLOW: every path from a store that parks output to a return which does not jump back into the decode loop ends with rax = ISAL_OUT_OVERFLOW: '
                  'the caller of a decoder that says "done" or "error" does not go on decoding over parked bytes', floor=2, unit='decoders')
    off = c19.field_offsets('struct inflate_state', PARKED)
    sizes = {n: 4 for n in PARKED}
    # ---- asm
    res, _ = provenance.analyse('default')
    for sym in ('decode_huffman_code_block_stateless_01', 'decode_huffman_code_block_stateless_04'):
        info = res.get(sym)
        if info is None:
            raise AnalysisBroken(sym + ' not found')
        R.instance()
        u, f, fl = info['unit'], info['func'], info['flow']
        stores = {}
        for a in info['accesses']:
            if a.kind in ('store', 'rmw') and a.addr[0] == 'P' and a.addr[1] == 'STATE' and a.addr[2] is not None and a.addr[2][1] == 0:
                for n in PARKED:
                    if a.addr[2][0] < off[n] + 4 and off[n] < a.addr[2][0] + a.size:
                        src = a.insn.ops[1] if len(a.insn.ops) > 1 else None
                        zero = False
                        if src is not None and re.match(r'^(0x0+|0)$', src):
                            zero = True
                        elif src in REG64:
                            v = fl.rd(fl.IN[a.insn.addr], src)
                            zero = (v == ('AFF', 0, 0))
                        stores.setdefault(a.insn.addr, []).append((n, 'Z' if zero else a.insn))
        if not stores:
            raise AnalysisBroken('%s: no store to the parked-output fields recognised' % sym)
        # state: {rax-def key: {field: frozenset of 'E' / 'Z' / insn}}
        init = {None: {n: frozenset(['E']) for n in PARKED}}
        IN = {f.entry: init}
        work = [f.entry]
        while work:
            x = work.pop()
            st = {k: dict(v) for k, v in IN[x].items()}
            i = u.insns[x]
            for n, val in stores.get(x, []):
                for k in st:
                    st[k][n] = frozenset([val])
            if i.ops and i.ops[0] in ('rax', 'eax') and i.mn in ('mov', 'xor'):
                merged = {n: frozenset().union(*[v[n] for v in st.values()]) for n in PARKED}
                val = None
                if i.mn == 'mov' and re.match(r'^(0x[0-9a-f]+|-?\d+)$', i.ops[1]):
                    val = int(i.ops[1], 0) & 0xffffffff
                elif i.mn == 'xor' and i.ops[0] == i.ops[1]:
                    val = 0
                st = {(x, val): merged}
            for nx in u.succ(f, x):
                if nx not in IN:
                    IN[nx] = st
                    work.append(nx)
                else:
                    old = IN[nx]
                    new = {}
                    for k in set(old) | set(st):
                        if k in old and k in st:
                            new[k] = {n: old[k][n] | st[k][n] for n in PARKED}
                        else:
                            new[k] = old[k] if k in old else st[k]
                    if new != old:
                        IN[nx] = new
                        work.append(nx)
        nexit = 0
        for x in f.addrs:
            if u.insns[x].mn != 'ret' or x not in IN:
                continue
            for k, fields in IN[x].items():
                if k is None or k[1] != (END & 0xffffffff):
                    continue
                nexit += 1
                for n in PARKED:
                    bad = [v for v in fields[n] if v not in ('E', 'Z')]
                    R.check(not bad, '%s: %s' % (u.name, u.where(u.insns[k[0]], f)), 'the ISAL_END_INPUT exit can be reached with state->%s as stored by "%s" (%s): the decoder rolls the input back to the start of the symbol group but keeps the output it parked, '
                            'so the next call emits it again' % (n, bad[0].text if bad else '', u.where(bad[0], f) if bad else ''), key='R-ROLLBACK-CLEAN|%s|%s' % (sym, n),
                            sample='%s: END_INPUT exit leaves %s = entry value or 0' % (sym, n) if n == 'write_overflow_len' else None)
        if not nexit:
            raise AnalysisBroken('%s: no exit returning ISAL_END_INPUT found' % sym)
        # ---- R-PARKED-EXITCODE: forward-only paths from every parking store to a return
        R2.instance()
        order = {a_: n_ for n_, a_ in enumerate(f.addrs)}
        npark = 0
        for sa, lst in sorted(stores.items()):
            if all(v == 'Z' for _, v in lst):
                continue
            npark += 1
            bad = None
            v0 = fl.rd(fl.IN[sa], 'rax') if sa in fl.IN else None
            rv0 = (v0[1] & 0xffffffff) if (v0 is not None and v0[0] == 'AFF' and v0[2] == 0) else None
            seen, work = set(), [(sa, rv0)]
            while work and bad is None:
                x, rv = work.pop()
                if (x, rv) in seen:
                    continue
                seen.add((x, rv))
                i = u.insns[x]
                if i.ops and i.ops[0] in ('rax', 'eax') and i.mn in ('mov', 'xor', 'or', 'and', 'add', 'sub', 'lea', 'movzx', 'pop'):
                    if i.mn == 'mov' and re.match(r'^(0x[0-9a-f]+|-?\d+)$', i.ops[1]):
                        rv = int(i.ops[1], 0) & 0xffffffff
                    elif i.mn == 'xor' and i.ops[0] == i.ops[1]:
                        rv = 0
                    else:
                        rv = 'unknown'
                if i.mn == 'ret':
                    if rv != (OVF & 0xffffffff):
                        bad = (i, rv)
                    continue
                for nx in u.succ(f, x):
                    if nx > x:                 # forward edges only: a jump back into the decode loop continues decoding (and has to come out again through a parking exit)
                        work.append((nx, rv))
            R2.check(bad is None, '%s: %s' % (u.name, u.where(u.insns[sa], f)), 'after "%s" parks output in the state, a path that never jumps back into the decode loop reaches the return with rax = %s, not ISAL_OUT_OVERFLOW: '
                     'the caller goes on (next block / end of stream) over the parked bytes' % (u.insns[sa].text, ('%#x' % bad[1]) if bad and isinstance(bad[1], int) else (bad[1] if bad else '')),
                     key='R-PARKED-EXITCODE|%s|%#x' % (sym, sa - f.entry), sample='%s: every forward path from "%s" returns ISAL_OUT_OVERFLOW' % (sym, u.insns[sa].text.split('  ')[0]) if npark == 1 else None)
        if npark < 2:
            raise AnalysisBroken('%s: fewer than 2 parking stores found' % sym)
        # ---- R-PARK-EOB-ADJUST: literals parked from a packed entry whose last symbol turns out to be end-of-block
        R3.instance()
        bs_off = c19.field_offsets('struct inflate_state', ['block_state'])['block_state']
        bs_stores = {a.insn.addr for a in info['accesses'] if a.kind in ('store', 'rmw') and a.addr[0] == 'P' and a.addr[1] == 'STATE' and a.addr[2] is not None and a.addr[2][1] == 0 and a.addr[2][0] == bs_off}
        wl = sorted(sa for sa, lst in stores.items() if any(n == 'write_overflow_len' and v != 'Z' for n, v in lst))
        if not bs_stores or not wl:
            raise AnalysisBroken('%s: no store to block_state / write_overflow_len recognised' % sym)
        nfin = 0
        for sa in wl:
            seen, work, bad = set(), [(s_, False) for s_ in u.succ(f, sa) if s_ > sa], None
            while work and bad is None:
                x, adj = work.pop()
                if (x, adj) in seen:
                    continue
                seen.add((x, adj))
                if x in wl:
                    adj = True
                if x in bs_stores:
                    nfin += 1
                    if not adj and not any(w > sa and w < x for w in wl if w != sa and False):
                        bad = u.insns[x]
                    continue
                for nx in u.succ(f, x):
                    if nx > x:
                        work.append((nx, adj))
            # the store itself may be the adjusting one (second store of the sequence): only the FIRST store of a straight-line parking sequence carries the obligation
            def fwd(src):
                s2, w2 = set(), [s_ for s_ in u.succ(f, src) if s_ > src]
                while w2:
                    y = w2.pop()
                    if y in s2:
                        continue
                    s2.add(y)
                    w2 += [n_ for n_ in u.succ(f, y) if n_ > y]
                return s2
            first = not any(w != sa and sa in fwd(w) for w in wl)
            if first:
                R3.check(bad is None, '%s: %s' % (u.name, u.where(u.insns[sa], f)), 'after "%s" parks the symbols of a packed table entry, a forward path reaches the store that marks the block finished (%s) without a second store to '
                         'write_overflow_len: the parked count still includes the end-of-block symbol, and the caller emits its low byte as a literal' % (u.insns[sa].text, u.where(bad, f) if bad else ''),
                         key='R-PARK-EOB-ADJUST|%s|%#x' % (sym, sa - f.entry), sample='%s: the count is stored again before the block is marked finished' % sym)
        if nfin == 0:
            raise AnalysisBroken('%s: no forward path from a literal-parking store to the block-finished store: the rule has nothing to decide' % sym)
    R.notes.append('portable C decoder: not decided by this rule - in the C loop the parked fields are followed by value-dependent returns (avail_out == 0 implies copy_overflow_length > 0 implies return), which a reaching-definitions analysis cannot separate from the roll-back exits')


def check_trailer_consume(rep):
    """the trailer comparators take the trailer out of the 64-bit bit buffer when it is already there; the bits removed must be exactly the
    trailer (plus the sub-byte remainder in front of it), because the bytes behind it belong to whatever follows the stream and the position
    reported to the caller is next_in - read_in_length / 8."""
    import llir, irrules
    import c19
    R = rep.rule('R-TRAILER-CONSUME', 'check_gzip_checksum / check_zlib_checksum: on the path guarded by read_in_length >= 8*TRAILER_LEN, the value finally stored to read_in_length is, symbolically, '
                 'old - (old mod 8) - 8*TRAILER_LEN, or the constant 0 when 8*TRAILER_LEN is the whole 64-bit buffer (forward symbolic evaluation of the stores on that path)', floor=2, unit='comparators')
    mod = llir.library('default')
    off = c19.field_offsets('struct inflate_state', ['read_in_length'])['read_in_length']
    for fn in ('check_gzip_checksum', 'check_zlib_checksum'):
        f = mod.funcs.get(fn)
        if f is None:
            raise AnalysisBroken(fn + ' not found')
        R.instance()
        P = irrules.prov(mod, f)
        cell = {('param', 0, off)}
        guard = None
        for b, br, c in irrules.cond_branches(mod, f):
            if c is not None and c.op == 'icmp' and c.extra['pred'] in ('sge', 'uge', 'sgt', 'ugt') and re.match(r'^\d+$', c.ops[1]):
                d = f.defs.get(irrules._strip(f, c.ops[0]))
                if d is not None and d.op == 'load' and P.atoms(d.ops[0]) == cell:
                    k = int(c.ops[1]) + (1 if c.extra['pred'] in ('sgt', 'ugt') else 0)
                    if guard is None or k > guard[1]:
                        guard = (b, k, br)
        if guard is None:
            raise AnalysisBroken('%s: no "read_in_length >= constant" test found' % fn)
        gb, need, br = guard
        pd = f.postdominators()
        cands = pd.get(gb, set()) - {gb}
        join = None
        for cnd in cands:
            if cnd != '#exit' and all(o == cnd or o == '#exit' or o in pd.get(cnd, set()) for o in cands):
                join = cnd
        blk = br.extra['targets'][0]
        cur = {'old': 1}            # linear form over 'old', 'oldmod8' and 1
        ok_form = True
        seen = set()
        nst = 0

        def ev(v):
            if re.match(r'^-?\d+$', v):
                return {1: int(v)} if int(v) else {}
            d = f.defs.get(v)
            if d is None:
                return None
            if d.op in ('sext', 'zext', 'trunc', 'freeze'):
                return ev(d.ops[0])
            if d.op == 'load' and P.atoms(d.ops[0]) == cell:
                return dict(loadval.get(d.dst, {'?': 1}))
            if d.op in ('sub', 'add'):
                a, b_ = ev(d.ops[0]), ev(d.ops[1])
                if a is None or b_ is None:
                    return None
                out = dict(a)
                for k_, c_ in b_.items():
                    out[k_] = out.get(k_, 0) + (c_ if d.op == 'add' else -c_)
                return {k_: c_ for k_, c_ in out.items() if c_}
            if d.op in ('srem', 'urem') and d.ops[1] == '8':
                a = ev(d.ops[0])
                return {'oldmod8': 1} if a == {'old': 1} else None
            if d.op == 'and' and d.ops[1] == '7':
                a = ev(d.ops[0])
                return {'oldmod8': 1} if a == {'old': 1} else None
            return None
        loadval = {}
        while blk is not None and blk != join and blk not in seen:
            seen.add(blk)
            for i in f.blocks[blk].insns:
                if i.op == 'load' and P.atoms(i.ops[0]) == cell:
                    loadval[i.dst] = dict(cur) if cur is not None else {'?': 1}
                elif i.op == 'store' and P.atoms(i.ops[1]) == cell:
                    cur = ev(i.ops[0])
                    nst += 1
                elif i.op == 'call' and not i.callee.startswith('llvm.') and i.callee not in irrules.READONLY_EXT and any(a[0] == 'param' and a[1] == 0 for _, v in i.args for a in P.atoms(v)):
                    cur = None
            succ = f.blocks[blk].succs
            blk = succ[0] if len(succ) == 1 else None
        good = cur is not None and ((cur == {'old': 1, 'oldmod8': -1, 1: -need}) or (cur == {} and need == 64) or (cur == {'old': 1, 1: -need} and need % 8 == 0 and need == 64))
        R.check(nst > 0 and good, mod.where(f, br), '%s: with the trailer (%d bits) already in the bit buffer, read_in_length ends as %s; it must end as old - (old mod 8) - %d: whatever else is taken out of the buffer are bytes that follow '
                'the stream, and the input position reported to the caller moves past the true end' % (fn, need, 'an unmodelled value' if cur is None else (cur or '0'), need), key='R-TRAILER-CONSUME|%s' % fn,
                sample='%s: removes exactly %d bits (+ sub-byte remainder)' % (fn, need))


def main(tier):
    rep = Report('C02', tier, level='other')
    rep.undecided = UNDECIDED
    rep.explanation = ('Every cell of the four pre-generated inflate lookup tables (static_inflate.h) is decoded by the checker with the canonical code the table is installed for '
                       '- the RFC fixed code, and the header stored in THIS configuration\'s hufftables_default, which is what header_matches_pregen compares the input with - and '
                       'must agree in symbols, consumed bits, long-code redirects and invalid markers; the entry bit layout is read from the C macros, which are in turn compared '
                       'with the asm decoders\' copies. Necessary conditions only; decode loops and dynamic table construction are not decided.')
    rep.trusted = ['clang 14 / nasm constant evaluation', 'checker RFC 1951 reference (canonical codes, header parser)']
    rep.analysed = dict(configurations=CONFIGS, units=['igzip/static_inflate.h', 'igzip/igzip_inflate.c', 'igzip/hufftables_c.c', 'igzip/rfc1951_lookup.asm',
                                                       'igzip/inflate_data_structs.asm', 'igzip/igzip_decode_block_stateless.asm'])
    rep.attempt(check_rfc, rep)
    for c in CONFIGS:
        check_pregen(rep, c)
        check_mirror(rep, c)
    rep.attempt(check_rollback, rep)
    import rollbackpair, llir, c19
    import c06 as _c06
    rep.attempt(_c06.check_spec_advance, rep)       # error exits of the asm decoders report only bytes that were written
    rep.attempt(rollbackpair.check, rep, llir.library('default'), c19.field_offsets('struct inflate_state', rollbackpair.IN_FIELDS + rollbackpair.OUT_FIELDS))
    rep.attempt(check_trailer_consume, rep)
    import c11, llir
    rep.attempt(c11.check_adler_range, rep, llir.library('default'))      # "accepting the trailer": the finalised Adler-32 halves are < 65521
    import probepure, llir
    rep.attempt(probepure.check_probe_pure, rep, llir.library('default'))
    rep.attempt(probepure.check_trunc_cmp, rep, llir.library('default'))
    rep.attempt(probepure.check_zero_run_siblings, rep, llir.library('default'))
    rep.attempt(probepure.check_refill_in_loop, rep, llir.library('default'))
    import c19 as _c19b
    rep.attempt(_c19b.check_null_skip, rep, llir.library('default'))      # gzip members with optional fields are valid streams
    import acct, c19, llir, c17
    rep.attempt(c17.check_dict_tail, rep, llir.library('default'))
    rep.attempt(acct.check, rep, 'i', 50, c19.field_offsets('struct isal_zstream', ['next_in', 'avail_in', 'total_in', 'next_out', 'avail_out', 'total_out']), c19.field_offsets('struct inflate_state', ['next_in', 'avail_in', 'next_out', 'avail_out', 'total_out']), llir.library('default'))
    rep.attempt(acct.check_stored_len, rep, llir.library('default'), c19.field_offsets('struct inflate_state', ['next_in', 'avail_in', 'next_out', 'avail_out', 'total_out', 'type0_block_len']))
    return rep.finish()
