"""C06 - decompression of arbitrary bytes is safe, terminates and never falsely succeeds.
Decided (structural): return-code sets of the inflate entry points (C and asm decoders) are
the documented ones; every look-back copy / distance-table index / Huffman-table construction
is dominated by its validation guard, in the C decoder and in both asm decoders; every
compare of the asm decoders is consumed."""
import re
from common import Report, AnalysisBroken, read_repo
import llir, irrules, mirror, provenance, kernels, asmsum
from provenance import base_tag
import c19

UNDECIDED = ('termination / progress on every call, "reports completion only if the stream is decodable", equality with a reference decoder, that a guard which is present is also numerically right '
             '(off-by-one), bounds of table indexes inside the table builders')


def base_name(n):
    return re.sub(r'\.\d+$', '', n)


def documented(fn):
    txt = read_repo('include/igzip_lib.h')
    m = re.search(r'/\*\*((?:(?!\*/).)*?)\*/\s*int\s+%s\(' % fn, txt, re.S)
    if not m:
        raise AnalysisBroken('no doxygen comment for %s' % fn)
    doc = m.group(1)
    r = doc[doc.index('@return'):] if '@return' in doc else ''
    return sorted(set(re.findall(r'\b(ISAL_[A-Z_]+|COMP_OK)\b', r)))


def asm_ret_consts(sym):
    res, _ = provenance.analyse('default')
    info = res.get(sym)
    if info is None:
        raise AnalysisBroken('asm decoder %s not found' % sym)
    kinds = provenance.ret_kinds(info['unit'], info['func'], info['flow'])
    return kinds, info


def check_retcodes(rep, mod):
    R = rep.rule('R-RETCODES', 'inflate entry points return only documented status codes; the C and the two asm block decoders agree on one set of internal codes; internal positive codes do not escape isal_inflate', floor=5, unit='functions')
    names = ['ISAL_DECOMP_OK', 'ISAL_END_INPUT', 'ISAL_OUT_OVERFLOW', 'ISAL_NAME_OVERFLOW', 'ISAL_COMMENT_OVERFLOW', 'ISAL_EXTRA_OVERFLOW', 'ISAL_NEED_DICT', 'ISAL_INVALID_BLOCK',
             'ISAL_INVALID_SYMBOL', 'ISAL_INVALID_LOOKBACK', 'ISAL_INVALID_WRAPPER', 'ISAL_UNSUPPORTED_METHOD', 'ISAL_INCORRECT_CHECKSUM', 'ISAL_INVALID_STATE', 'COMP_OK']
    V, drop = mirror.c_values('default', ['igzip_lib.h'], [(n, n) for n in names], 'c06_codes')
    if drop:
        raise AnalysisBroken('status codes missing: %s' % drop)
    # block decoders
    base = irrules.ret_set(mod, 'decode_huffman_code_block_stateless_base')
    R.instance()
    want_dec = {V['ISAL_DECOMP_OK'], V['ISAL_END_INPUT'], V['ISAL_OUT_OVERFLOW'], V['ISAL_INVALID_SYMBOL'], V['ISAL_INVALID_LOOKBACK']}
    R.check(base <= want_dec, 'igzip/igzip_inflate.c:decode_huffman_code_block_stateless_base', 'returns %s, expected a subset of %s' % (sorted(map(str, base)), sorted(want_dec)),
            sample='base decoder returns %s' % sorted(base))
    union = set(x for x in base if isinstance(x, int))
    for sym in ('decode_huffman_code_block_stateless_01', 'decode_huffman_code_block_stateless_04'):
        kinds, info = asm_ret_consts(sym)
        R.instance()
        vals, nonconst = provenance.ret_const_set(info['unit'], info['func'])
        okk = not nonconst
        R.check(okk and vals <= want_dec, '%s:%s' % (info['unit'].name, sym), 'return values %s (all constant: %s), expected a subset of %s' % (sorted(vals), okk, sorted(want_dec)),
                key='R-RETCODES|%s' % sym, sample='%s returns %s' % (sym, sorted(vals)))
        union |= vals
    irrules.EXT_RETS['decode_huffman_code_block_stateless'] = union
    irrules._ret_memo.clear()
    # documented sets
    exc = {'isal_inflate_stateless': ({V['ISAL_NAME_OVERFLOW'], V['ISAL_COMMENT_OVERFLOW'], V['ISAL_EXTRA_OVERFLOW']},
                                      'gz_hdr is a local initialised by isal_gzip_header_init with NULL name/comment/extra buffers; the overflow returns of the copy helpers are guarded by buffer != NULL (rule R-OVERFLOW-NEEDS-BUFFER), which this return-set analysis does not propagate')}
    for fn in ('isal_inflate', 'isal_inflate_stateless', 'isal_inflate_set_dict'):
        R.instance()
        doc = documented(fn)
        allowed = {V[n] for n in doc if n in V}
        if fn == 'isal_inflate_set_dict':
            allowed |= {V['COMP_OK']}
        rs = irrules.ret_set(mod, fn)
        extra = {x for x in rs if x not in allowed}
        if fn in exc:
            extra -= exc[fn][0]
            R.notes.append('%s: %s not flagged: %s' % (fn, sorted(exc[fn][0]), exc[fn][1]))
        R.check(not extra, 'igzip/igzip_inflate.c:%s' % fn, 'may return %s, documented are %s' % (sorted(map(str, extra)), doc), key='R-RETCODES|%s' % fn,
                sample='%s returns %s' % (fn, sorted(map(str, rs))))
    return V


def guards_returning(mod, f, code):
    """[(block, pass_target, fail_target, icmp)] conditional branches with one edge that returns exactly {code}"""
    out = []
    for b, br, c in irrules.cond_branches(mod, f):
        tt, tf = br.extra['targets']
        for fail, ok in ((tt, tf), (tf, tt)):
            rv = irrules.returns_via(f, fail)
            if rv == {code} and len(f.reachable_avoiding(fail, set())) <= 4:
                out.append((b, ok, fail, c))
    return out


def dominated_by_pass(f, g, block):
    b, ok, fail, c = g
    unsafe = irrules.blocks_reachable_without_edge(f, b, ok)
    return block not in unsafe


def check_sinks_c(rep, mod, V):
    R = rep.rule('R-GUARD-SINK-C', 'portable decoder: the look-back copy is reachable only through the passed "next_out - dist >= start_out" test; the distance-table index only through "symbol < DIST_LEN"; '
                 'Huffman tables are built only after the header-range, code-completeness and over-subscription tests passed; a stored block is accepted only after LEN/NLEN agree', floor=4, unit='sinks')
    f = mod.funcs.get('decode_huffman_code_block_stateless_base')
    if f is None:
        raise AnalysisBroken('decode_huffman_code_block_stateless_base not found')
    P = irrules.prov(mod, f)
    zs = c19.field_offsets('struct inflate_state', ['next_out'])
    # (1) look-back copies
    lb = [g for g in guards_returning(mod, f, V['ISAL_INVALID_LOOKBACK']) if g[3] is not None and any(a[0] == 'param' and a[1] == 1 for o in g[3].ops for a in P.atoms(o))]
    R.check(len(lb) >= 1, mod.where(f, None), 'no comparison against start_out with an ISAL_INVALID_LOOKBACK edge found', key='R-GUARD-SINK-C|lookback-guard')
    copies = [i for i in f.all_insns() if i.op == 'call' and (i.callee.startswith('llvm.memcpy') or base_name(i.callee) == 'byte_copy')]
    nlb = 0
    for cp in copies:
        # a look-back copy reads from (next_out - distance): its source / distance argument depends on the value loaded from the rfc distance table
        deps = set()
        for _, v in cp.args:
            deps |= P.deps(v)
        if not any(d[0] == 'mem' and irrules.base_root(d[1])[0] == 'global' and 'rfc' in irrules.base_root(d[1])[1] for d in deps):
            continue
        nlb += 1
        R.instance()
        R.check(any(dominated_by_pass(f, g, cp.block) for g in lb), mod.where(f, cp), 'look-back copy is reachable without passing the start-of-output test', key='R-GUARD-SINK-C|lookback',
                sample='%s after next_out - dist >= start_out' % base_name(cp.callee))
    R.check(nlb >= 2, mod.where(f, None), 'expected the memcpy and byte_copy look-back sinks, found %d' % nlb, key='R-GUARD-SINK-C|lookback-count')
    # (2) distance table index
    sg = [g for g in guards_returning(mod, f, V['ISAL_INVALID_SYMBOL']) if g[3] is not None and g[3].op == 'icmp' and g[3].ops[1] in ('30', '29')]
    loads = [i for i in f.all_insns() if i.op == 'load' and any(a[0] == 'global' and 'rfc' in a[1] and a[2] is None for a in P.atoms(i.ops[0]))]
    R.check(len(loads) >= 2, mod.where(f, None), 'expected variable-index reads of rfc_lookup_table (dist_start, dist_extra_bit_count), found %d' % len(loads), key='R-GUARD-SINK-C|dist-count')
    for ld in loads:
        R.instance()
        R.check(any(dominated_by_pass(f, g, ld.block) for g in sg), mod.where(f, ld), 'indexed read of the RFC distance table is reachable without passing "symbol < DIST_LEN"', key='R-GUARD-SINK-C|distsym',
                sample='rfc table read after next_dist < DIST_LEN')
    # (3) table construction in setup_dynamic_header
    g = mod.funcs.get('setup_dynamic_header')
    if g is None:
        raise AnalysisBroken('setup_dynamic_header not found')
    Pg = irrules.prov(mod, g)
    gb = guards_returning(mod, g, V['ISAL_INVALID_BLOCK'])
    kinds = {}
    for gd in gb:
        c = gd[3]
        if c is None:
            continue
        deps = Pg.deps(c.dst)
        calls = {base_name(d[1]) for d in deps if d[0] == 'call'}
        for k in ('set_codes', 'set_and_expand_lit_len_huffcode'):
            if k in calls:
                kinds.setdefault(k, []).append(gd)
        # HLIT / HDIST range tests: a direct comparison of a 5-bit header field with a constant
        if c.op == 'icmp' and re.match(r'^\d+$', c.ops[1]) and c.extra['pred'] in ('ugt', 'uge', 'sgt', 'sge'):
            dv = g.defs.get(irrules._strip(g, c.ops[0]))
            if dv is not None and dv.op == 'call' and base_name(dv.callee) == 'inflate_in_read_bits_unsafe' and dv.args[1][1] == '5':
                kinds.setdefault('hdr5:' + dv.dst, []).append(gd)
        if any(d[0] == 'mem' and irrules.base_root(d[1])[0] == 'alloca' and 'lit_and_dist_huff' in str(irrules.base_root(d[1])[1]) for d in deps) and not calls:
            kinds.setdefault('eob-or-end', []).append(gd)
        if any(d[0] in ('alloca',) and 'lit_and_dist_huff' in str(d[1]) for d in deps) and not calls:
            kinds.setdefault('eob-or-end', []).append(gd)
    five = [i.dst for i in g.all_insns() if i.op == 'call' and base_name(i.callee) == 'inflate_in_read_bits_unsafe' and i.args[1][1] == '5']
    if len(five) != 2:
        raise AnalysisBroken('setup_dynamic_header: expected the two 5-bit header fields HLIT and HDIST, found %d' % len(five))
    hdr = ['hdr5:' + x for x in five]
    # the constants of the two range tests: RFC 1951 3.2.7 - HLIT = #lit/len codes - 257 in 0..29 (286 codes), HDIST = #distance codes - 1 in 0..29 (30 codes)
    for which, hk in zip(('HLIT', 'HDIST'), hdr):
        R.instance()
        gds = kinds.get(hk, [])
        acc = None
        for gd in gds:
            c = gd[3]
            k = int(c.ops[1])
            lim = k if c.extra['pred'] in ('ugt', 'sgt') else k - 1
            acc = lim if acc is None else min(acc, lim)
        R.check(acc is not None and acc <= 29, mod.where(g, gds[0][3]) if gds else mod.where(g, None), '%s values up to %s pass the range test; RFC 1951 allows at most 29 (%s)' %
                (which, acc, '286 literal/length codes' if which == 'HLIT' else '30 distance codes: a 31st code length is then counted but the table builders run over 30 entries'),
                key='R-GUARD-SINK-C|range-%s' % which, sample='%s <= %s accepted' % (which, acc))
    for callee, need in (('make_inflate_huff_code_dist', hdr + ['eob-or-end', 'set_codes']),
                         ('make_inflate_huff_code_lit_len', hdr + ['eob-or-end', 'set_codes', 'set_and_expand_lit_len_huffcode'])):
        sites = [i for i in g.all_insns() if i.op == 'call' and base_name(i.callee) == callee]
        if not sites:
            raise AnalysisBroken('setup_dynamic_header: no call of %s' % callee)
        for cs in sites:
            R.instance()
            for k in need:
                ok = any(dominated_by_pass(g, gd, cs.block) for gd in kinds.get(k, []))
                R.check(ok, mod.where(g, cs), '%s is reachable without passing the %s validation (ISAL_INVALID_BLOCK edge)' % (callee, {'eob-or-end': 'code-length overrun / end-of-block-code', 'set_codes': 'distance over-subscription (set_codes)',
                        'set_and_expand_lit_len_huffcode': 'literal/length over-subscription'}.get(k, 'HLIT/HDIST range (5-bit header field %s)' % k[5:])),
                        key='R-GUARD-SINK-C|%s|%s' % (callee, k), sample='%s after %s test' % (callee, k) if k == 'set_codes' else None)
    # (5) stored block LEN/NLEN
    h = mod.funcs.get('read_header')
    if h is None:
        raise AnalysisBroken('read_header not found')
    Ph = irrules.prov(mod, h)
    st = c19.field_offsets('struct inflate_state', ['block_state', 'type0_block_len'])
    t0, _ = mirror.c_values('default', ['igzip_lib.h'], [('T0', 'ISAL_BLOCK_TYPE0')], 'c06_t0')
    gh = guards_returning(mod, h, V['ISAL_INVALID_BLOCK'])
    stores = [i for i in h.all_insns() if i.op == 'store' and i.ops[0] == str(t0['T0']) and ('param', 0, st['block_state']) in Ph.atoms(i.ops[1])]
    R.check(len(stores) >= 1, mod.where(h, None), 'no transition to ISAL_BLOCK_TYPE0 found in read_header', key='R-GUARD-SINK-C|type0-count')
    for s_ in stores:
        R.instance()
        lenguards = [gd for gd in gh if gd[3] is not None and gd[3].op == 'icmp' and gd[3].extra['pred'] in ('ne', 'eq')]
        R.check(any(dominated_by_pass(h, gd, s_.block) for gd in lenguards), mod.where(h, s_), 'stored block is accepted without passing a LEN == ~NLEN comparison', key='R-GUARD-SINK-C|lennlen',
                sample='block_state = TYPE0 only after LEN/NLEN test')


def check_overflow_needs_buffer(rep, mod):
    R = rep.rule('R-OVERFLOW-NEEDS-BUFFER', 'the header copy helpers report a name/comment/extra overflow only on paths where the caller supplied a buffer (the test "buffer != NULL" dominates the overflow return)', floor=2, unit='helpers')
    for fn in ('buffer_header_copy', 'string_header_copy'):
        f = mod.funcs.get(fn)
        if f is None:
            raise AnalysisBroken(fn + ' not found')
        R.instance()
        P = irrules.prov(mod, f)
        ret = [i for i in f.all_insns() if i.op == 'ret'][0]
        d = f.defs.get(ret.ops[0])
        if d is None or d.op != 'phi':
            raise AnalysisBroken('%s: return phi expected' % fn)
        # the error parameter is the last parameter
        perr = f.params[-1][1]
        edges = [pb for v, pb in d.extra['incoming'] if v == perr]
        R.check(len(edges) >= 1, mod.where(f, ret), 'no return of the overflow code parameter found', key='R-OVERFLOW-NEEDS-BUFFER|%s|ret' % fn)
        # which parameter is the destination buffer: the pointer parameter that is written through
        wr = set()
        for i, atoms, kind in irrules.write_sites(mod, f):
            for a in atoms:
                if a[0] == 'param':
                    wr.add(a[1])
        for eb in edges:
            ok = False
            for b, br, c in irrules.cond_branches(mod, f):
                if c is None or c.op != 'icmp' or c.ops[1] != 'null':
                    continue
                at = P.atoms(c.ops[0])
                if not any(a[0] == 'param' and a[1] in wr for a in at):
                    continue
                tt, tf = br.extra['targets']
                nn = tt if c.extra['pred'] == 'ne' else tf
                if f.blocks[nn].preds == [b] and (f.dominates(nn, eb) or nn == eb):
                    ok = True
            R.check(ok, mod.where(f, ret), 'the overflow code can be returned on a path where the destination buffer was not tested to be non-NULL', key='R-OVERFLOW-NEEDS-BUFFER|%s' % fn,
                    sample='%s: overflow only if buffer != NULL' % fn)


def check_guard_value(RV, info, guards, sinks, sym):
    import copy
    import linform
    from asmdb import REG64, parse_mem, is_mem
    u, f = info['unit'], info['func']
    RV.instance()
    slot = None
    for a in info['accesses']:
        if a.kind == 'store' and a.addr[0] == 'P' and a.addr[1] == 'STACK' and a.val[0] == 'P' and a.val[1] == 'OUT' and a.insn.ops[1] == 'rsi':
            slot = parse_mem(a.insn.ops[0])['disp'] or 0
            break
    if slot is None:
        raise AnalysisBroken('%s: the stack slot that saves start_out (second argument) was not found' % sym)
    nchecked = 0
    for g in sorted(guards):
        # flag producer: the instruction just before the branch
        idx = f.addrs.index(g)
        c = u.insns[f.addrs[idx - 1]]
        if not (c.mn == 'cmp' and len(c.ops) == 2 and c.ops[0] in REG64 and is_mem(c.ops[1])):
            continue
        m = parse_mem(c.ops[1])
        if m['base'] != 'rsp' or (m['disp'] or 0) != slot or m['index']:
            continue
        gi = u.insns[g]
        passn = gi.end if gi.target is not None and gi.target not in (gi.end,) else None
        chain = linform.straight_back(u, f, c.addr)
        w = linform.Walk(u, f)
        for a in chain[:-1]:
            w.step(u.insns[a])
        checked = dict(w.get(REG64[c.ops[0]][0]))
        # explore the paths after the passed guard up to the first look-back read
        found = []
        work = [(passn, w, 0)]
        while work:
            a, ww, depth = work.pop()
            while a is not None and depth < 60:
                i = u.insns[a]
                if a in sinks:
                    if i.mn in ('movs', 'movsb', 'rep') or i.mn.startswith('rep'):
                        form = dict(ww.get('rsi'))      # string copy: the source is [rsi]
                    else:
                        mo = [o for o in i.ops if is_mem(o)][0]
                        form = ww.mem_form(parse_mem(mo))
                    found.append((i, form))
                    break
                if i.mn == 'ret' or a in guards:
                    break
                ww.step(i)
                depth += 1
                succ = u.succ(f, a)
                if len(succ) == 2:
                    work.append((succ[1], copy.deepcopy(ww), depth))
                a = succ[0] if succ else None
        if not found:
            # a comparison with start_out that protects no read (it only decides the status when nothing of the match fits into the output - fix 3d2f..: the parked-literal
            # case); every look-back READ still needs a guard on all paths (R-GUARD-SINK-ASM) and is compared with the guard in front of it here
            RV.ok(1, sample='%s: start_out comparison at %s decides a status only (no look-back read before the next guard or return)' % (sym, u.where(c, f)))
            continue
        nchecked += 1
        for i, form in found:
            RV.check(form == checked, '%s: %s' % (u.name, u.where(i, f)),
                     'the look-back read uses address %s but the guard "%s" (%s) tested %s: the pointer was changed between its bound check and its use, so a distance reaching before start_out passes the check'
                     % (fmt_form(form), c.text, u.where(c, f), fmt_form(checked)), key='R-GUARD-VALUE-ASM|%s|%#x' % (sym, i.addr - f.entry),
                     sample='%s: guard tests %s, copy reads from the same value' % (sym, fmt_form(checked)))
    if nchecked < 2:
        raise AnalysisBroken('%s: expected two start_out guards (fast loop and tail loop), recognised %d' % (sym, nchecked))


def fmt_form(fm):
    if fm is None:
        return '<unmodelled address>'
    parts = []
    for s_, c in sorted(fm.items(), key=lambda kv: str(kv[0])):
        if s_ == 1:
            parts.append('%+d' % c)
        else:
            parts.append(('%+d*' % c if c not in (1, -1) else ('+' if c == 1 else '-')) + str(s_))
    return ' '.join(parts) or '0'


def check_array_fills(rep, mod):
    R = rep.rule('L-ARRAY-FILL', 'every memset/memcpy of the library with a constant length whose destination is the first element of an array [N x T] has a length that is a multiple of sizeof(T), does not exceed '
                 'N*sizeof(T), and is not the element COUNT N of an array of multi-byte elements (the table-clearing paths of the inflate table builders rely on clearing the whole lookup table)', floor=19, unit='fills')      # 27 before fix b47f2da turned the eight dictionary hash-table memset/memcpy into element loops (now under R-HASH-CLEAR)
    for f, i, n, es, ln in irrules.array_fills(mod):
        R.instance()
        bad = None
        if ln > n * es:
            bad = 'writes %d bytes into an array of %d bytes' % (ln, n * es)
        elif ln % es:
            bad = 'length %d is not a multiple of the %d-byte element size' % (ln, es)
        elif es > 1 and ln == n and ln < n * es:
            bad = 'length %d is the element count of the array, not its size in bytes (%d): only the first %d of %d elements are written and the rest keeps stale contents' % (ln, n * es, ln // es, n)
        elif 'memset' in i.callee and ln < n * es:
            # all constant-length memsets (17 before fix b47f2da, 13 after) of arrays in the library clear the whole array (confirmed by reading); a partial clear leaves stale entries behind
            bad = 'clears %d of the %d bytes of the array: the remaining elements keep stale contents' % (ln, n * es)
        R.check(bad is None, mod.where(f, i), '%s of [%d x %d-byte elements]: %s' % (base_name(i.callee).split('.')[1] if '.' in i.callee else i.callee, n, es, bad), key='L-ARRAY-FILL|%s|%d' % (f.name, i.line or 0),
                sample='%s: %d bytes = %d x %d' % (f.name, ln, n, es) if f.name == 'make_inflate_huff_code_dist' else None)


def check_spec_advance(rep):
    """The asm decoders advance next_out by a decoded match length BEFORE the copy ("determine next_out after the copy is finished") and decode the distance afterwards.
    Exits taken in between - invalid distance symbol, invalid look-back - must take the advance back, or the caller is told about bytes that were never written
    (stale contents of the output / history buffer delivered as data).  The advance is recognised structurally: an increment of the output cursor by a register for which the
    same function also contains the compensating `sub cursor, register`."""
    import asmdb
    from asmdb import REG64, is_mem, parse_mem
    R = rep.rule('R-SPEC-ADVANCE', 'decode_huffman_code_block_stateless_01/_04: the output cursor is the register loaded from state->next_out; for every "cursor += reg" (add / lea) whose amount register is also '
                 'subtracted from the cursor somewhere in the function (a speculative advance past a copy that has not happened yet), every path from the advance to the store of the cursor into state->next_out passes the copy (a store through a '
                 'register other than the state pointer and rsp), the compensating subtraction, or a redefinition of the cursor', floor=2, unit='speculative advances')
    no = c19.field_offsets('struct inflate_state', ['next_out'])['next_out']
    units = asmdb.units('default')
    n = 0
    for un, u in sorted(units.items()):
        for fn, f in sorted(u.funcs.items()):
            if not re.match(r'^decode_huffman_code_block_stateless_0\d$', fn):
                continue
            cur = sreg = None
            for a in f.addrs:
                i = u.insns[a]
                if i.mn == 'mov' and len(i.ops) == 2 and i.ops[0] in REG64 and REG64[i.ops[0]][1] == 64 and is_mem(i.ops[1]):
                    pm = parse_mem(i.ops[1])
                    if pm and pm['base'] in REG64 and not pm['index'] and pm['disp'] == no and pm['base'] not in ('rsp', 'rbp'):
                        cur, sreg = REG64[i.ops[0]][0], REG64[pm['base']][0]
                        break
            if cur is None:
                raise AnalysisBroken('%s: load of state->next_out into a register not found' % fn)
            subs = {}
            advs = []
            for a in f.addrs:
                i = u.insns[a]
                if i.mn == 'sub' and len(i.ops) == 2 and i.ops[0] == cur and i.ops[1] in REG64 and REG64[i.ops[1]][1] == 64:
                    subs.setdefault(REG64[i.ops[1]][0], []).append(a)
                if i.mn == 'add' and len(i.ops) == 2 and i.ops[0] == cur and i.ops[1] in REG64 and REG64[i.ops[1]][1] == 64:
                    advs.append((a, REG64[i.ops[1]][0]))
                if i.mn == 'lea' and len(i.ops) == 2 and i.ops[0] == cur and is_mem(i.ops[1]):
                    pm = parse_mem(i.ops[1])
                    if pm and pm['base'] == cur and pm['index'] in REG64 and pm['scale'] == 1:
                        advs.append((a, REG64[pm['index']][0]))
            spec = [(a, r) for a, r in advs if r in subs]
            if not spec:
                raise AnalysisBroken('%s: no speculative advance of the output cursor (cursor += reg with a compensating sub) found' % fn)

            def cleanses(i, r):
                if i.mn == 'sub' and len(i.ops) == 2 and i.ops[0] == cur and i.ops[1] in REG64 and REG64[i.ops[1]][0] == r:
                    return True
                if i.mn in ('mov', 'lea') and i.ops and i.ops[0] == cur and not (len(i.ops) > 1 and cur in re.findall(r'\b[a-z0-9]+\b', i.ops[1])):
                    return True
                if i.ops and is_mem(i.ops[0]) and i.mn not in ('cmp', 'test', 'push', 'prefetcht0', 'prefetchw') and not i.mn.startswith(('nop', 'prefetch')):
                    pm = parse_mem(i.ops[0])
                    regs = {REG64[x][0] for x in (pm['base'], pm['index']) if x and x in REG64} if pm else set()
                    if regs and not (regs & {sreg, 'rsp'}):
                        return True
                return False
            for a, r in spec:
                n += 1
                R.instance()
                seen, work, bad, parent = set(), [(s_, a) for s_ in u.succ(f, a)], None, {}
                while work and bad is None:
                    x, frm = work.pop()
                    if x in seen or x not in f.aset:
                        continue
                    seen.add(x)
                    parent[x] = frm
                    i = u.insns[x]
                    if is_mem(i.ops[0]) if i.ops else False:
                        pm0 = parse_mem(i.ops[0])
                        if i.mn == 'mov' and len(i.ops) == 2 and i.ops[1] == cur and pm0 and pm0['base'] in REG64 and REG64[pm0['base']][0] == sreg and pm0['disp'] == no and not pm0['index']:
                            bad = x            # the cursor is handed back to the caller (state->next_out = cursor)
                            break
                    if cleanses(i, r):
                        continue
                    if i.mn == 'ret':
                        continue
                    for s_ in u.succ(f, x):
                        work.append((s_, x))
                if bad is not None:
                    # describe by the last taken branch target on a path: find any jump in `seen` whose target is an exit label
                    path, x = [], bad
                    while x in parent and x != a:
                        path.append(x)
                        x = parent[x]
                    path.reverse()
                    js = [u.insns[p_] for k, p_ in enumerate(path[:-1]) if u.insns[p_].mn.startswith('j') and u.insns[p_].mn != 'jmp' and u.insns[p_].target == path[k + 1]]
                R.check(bad is None, '%s: %s' % (un, u.where(u.insns[a], f)), '%s: after this advance of the output cursor by %s the store state->next_out = cursor is reachable without the copy, without "sub %s, %s" and without a '
                        'redefinition of the cursor (e.g. through %s): the exit reports bytes that were never written - next_out / total_out too large, stale buffer contents delivered as data'
                        % (fn, r, cur, r, u.where(js[0], f) if bad is not None and js else 'an error exit'), key='R-SPEC-ADVANCE|%s|%x' % (fn, a - f.addrs[0]),
                        sample='%s: cursor %s += %s is undone or completed on every path to the return' % (fn, cur, r))
    if n == 0:
        raise AnalysisBroken('R-SPEC-ADVANCE: no kernel analysed')


def check_lookback_parked(rep, mod):
    """When the output fills up in the middle of a multi-symbol lookup (literal, literal, length) the literals that did not fit are parked in write_overflow_lits / _len and the
    decoder goes on to the length so that the match can be parked too.  The position the distance is measured from is then next_out PLUS the parked literals; a look-back test on
    next_out alone calls a valid stream ISAL_INVALID_LOOKBACK where the answer is ISAL_OUT_OVERFLOW (one-shot decoding into a buffer that is too small)."""
    import asmdb
    from asmdb import REG64, is_mem, parse_mem
    R = rep.rule('R-LOOKBACK-PARKED', 'the three block decoders: behind a store parking literals in state->write_overflow_len the comparison with start_out takes the parked count into account (C: every such comparison depends on a load of '
                 'write_overflow_len; asm: at least one comparison reachable from the parking store computes the compared register from a load of [state + _write_overflow_len] within its block - the exact guard of '
                 'the copy stays reachable in the flow graph although the output is full on that path)', floor=3, unit='decoders')
    io = c19.field_offsets('struct inflate_state', ['write_overflow_len', 'next_out'])
    wol = io['write_overflow_len']
    # --- portable decoder
    f = mod.funcs.get('decode_huffman_code_block_stateless_base')
    if f is None:
        raise AnalysisBroken('decode_huffman_code_block_stateless_base not found')
    R.instance()
    P = irrules.prov(mod, f)
    parks = [i for i in f.all_insns() if i.op == 'store' and P.atoms(i.ops[1]) == {('param', 0, wol)} and not re.match(r'^0$', i.ops[0])]
    sp = f.params[1][1]
    cmps = [c for _, _, c in irrules.cond_branches(mod, f) if c is not None and c.op == 'icmp' and (sp in c.ops or any(('param', 1, 0) in P.atoms(o) for o in c.ops))]
    if not parks or not cmps:
        raise AnalysisBroken('decode_huffman_code_block_stateless_base: parking store / start_out comparison not found (%d / %d)' % (len(parks), len(cmps)))
    reach = set()
    for p_ in parks:
        reach |= f.reachable_avoiding(p_.block, set())
    bad = [c for c in cmps if c.block in reach and not any(('mem', ('param', 0, wol)) in P.deps(o) for o in c.ops)]
    R.check(not bad, mod.where(f, bad[0]) if bad else mod.where(f, None), 'decode_huffman_code_block_stateless_base: this look-back test can be reached after literals were parked (output full inside a multi-symbol '
            'lookup) but measures the distance from next_out alone: a distance that reaches into the parked literals is reported as ISAL_INVALID_LOOKBACK instead of ISAL_OUT_OVERFLOW', key='R-LOOKBACK-PARKED|base',
            sample='base: %d start_out comparison(s) reachable from the parking store include write_overflow_len' % len([c for c in cmps if c.block in reach]))
    # --- asm decoders
    units = asmdb.units('default')
    for un, u in sorted(units.items()):
        for fn, fa in sorted(u.funcs.items()):
            if not re.match(r'^decode_huffman_code_block_stateless_0\d$', fn):
                continue
            R.instance()
            sreg = slot = None
            for a in fa.addrs:
                i = u.insns[a]
                if i.mn == 'mov' and len(i.ops) == 2 and i.ops[0] in REG64 and is_mem(i.ops[1]) and sreg is None:
                    pm = parse_mem(i.ops[1])
                    if pm and pm['base'] in REG64 and not pm['index'] and pm['disp'] == io['next_out'] and pm['base'] not in ('rsp', 'rbp'):
                        sreg = REG64[pm['base']][0]
                if i.mn == 'mov' and len(i.ops) == 2 and i.ops[1] == 'rsi' and is_mem(i.ops[0]) and slot is None:
                    pm = parse_mem(i.ops[0])
                    if pm and pm['base'] == 'rsp':
                        slot = pm['disp'] or 0
            if sreg is None or slot is None:
                raise AnalysisBroken('%s: state register / start_out slot not found' % fn)

            def is_wol(op):
                pm = parse_mem(op) if is_mem(op) else None
                return bool(pm and pm['base'] in REG64 and REG64[pm['base']][0] == sreg and not pm['index'] and pm['disp'] == wol)
            parks = [a for a in fa.addrs if u.insns[a].mn == 'mov' and len(u.insns[a].ops) == 2 and is_wol(u.insns[a].ops[0]) and u.insns[a].ops[1] in REG64]
            guards = []
            for a in fa.addrs:
                i = u.insns[a]
                if i.mn == 'cmp' and len(i.ops) == 2 and i.ops[0] in REG64 and is_mem(i.ops[1]):
                    pm = parse_mem(i.ops[1])
                    if pm and pm['base'] == 'rsp' and (pm['disp'] or 0) == slot and not pm['index']:
                        guards.append(a)
            if not parks or not guards:
                raise AnalysisBroken('%s: parking store / start_out comparison not found (%d / %d)' % (fn, len(parks), len(guards)))
            # first guards reachable from a parking store
            first = set()
            for p_ in parks:
                seen, work = set(), list(u.succ(fa, p_))
                while work:
                    x = work.pop()
                    if x in seen or x not in fa.aset:
                        continue
                    seen.add(x)
                    if x in guards:
                        first.add(x)
                        continue
                    if u.insns[x].mn == 'ret':
                        continue
                    work += u.succ(fa, x)
            jt = {u.insns[a].target for a in fa.addrs if u.insns[a].target is not None}
            bad = []
            for gaddr in sorted(first):
                regs = {REG64[u.insns[gaddr].ops[0]][0]}
                idx = fa.addrs.index(gaddr)
                ok = False
                for b in reversed(fa.addrs[max(0, idx - 14):idx]):
                    j = u.insns[b]
                    if j.ops and j.ops[0] in REG64 and REG64[j.ops[0]][0] in regs and j.mn in ('mov', 'movsxd', 'movzx', 'add', 'sub', 'lea'):
                        for o in j.ops[1:]:
                            if is_wol(o):
                                ok = True
                            elif o in REG64:
                                regs.add(REG64[o][0])
                            elif is_mem(o):
                                pm = parse_mem(o)
                                regs |= {REG64[x][0] for x in (pm['base'], pm['index']) if x and x in REG64}
                    if b in jt:
                        break
                if not ok:
                    bad.append(gaddr)
            # the flow graph does not know that the output is full on this path (the copy branch cannot be taken), so the exact guard of the copy is reachable too: required is that
            # SOME comparison behind the parking store counts the parked literals
            R.check(len(bad) < len(first), '%s: %s' % (un, u.where(u.insns[bad[0]], fa)) if bad else un, '%s: no comparison with start_out that is reachable after literals were parked in state->write_overflow_len '
                    '(output full inside a multi-symbol lookup) includes the parked count: a valid stream decoded into a buffer that is too small is answered with ISAL_INVALID_LOOKBACK instead of '
                    'ISAL_OUT_OVERFLOW' % fn, key='R-LOOKBACK-PARKED|%s' % fn, sample='%s: %d comparison(s) behind the parking store use [state + _write_overflow_len]' % (fn, len(first)))


def check_asm(rep, V):
    R = rep.rule('R-GUARD-SINK-ASM', 'asm decoders: on every path from a read of the RFC distance table to a look-back read of the output buffer lies a conditional branch to the ISAL_INVALID_LOOKBACK exit', floor=2, unit='decoders')
    RV = rep.rule('R-GUARD-VALUE-ASM', 'asm decoders: the value each look-back guard compares with the saved start_out is, as a linear expression over the register contents before the guard, exactly the address of the first '
                  'look-back read on every path that follows the passed guard (checked value = used value; nothing is added to or subtracted from the pointer between its check and its use)', floor=2, unit='decoders')
    RD = rep.rule('L-DEADCMP-INFLATE', 'every flag-setting compare of the asm decoders is consumed', floor=2, unit='decoders')
    res, _ = provenance.analyse('default')
    for sym in ('decode_huffman_code_block_stateless_01', 'decode_huffman_code_block_stateless_04'):
        info = res[sym]
        u, f = info['unit'], info['func']
        R.instance()
        RD.instance()
        lb_exits = set()
        for a in f.addrs:
            j = u.insns[a]
            if j.mn in ('mov', 'movabs') and len(j.ops) == 2 and j.ops[0] in ('rax', 'eax'):
                try:
                    v = int(j.ops[1], 0)
                except ValueError:
                    continue
                if (v & 0xffffffff) == (V['ISAL_INVALID_LOOKBACK'] & 0xffffffff):
                    lb_exits.add(a)
        if not lb_exits:
            R.fail('%s:%s' % (u.name, sym), 'no return of ISAL_INVALID_LOOKBACK', key='R-GUARD-SINK-ASM|%s|exit' % sym)
            continue
        # blocks from which ONLY the lookback exit is reachable without other side effects: walk back from the exits over unconditional flow
        exit_region = set()
        for e in lb_exits:
            # straight-line predecessors region: instructions that reach e by fallthrough/jmp only
            work = [e]
            while work:
                x = work.pop()
                if x in exit_region:
                    continue
                exit_region.add(x)
                for p in f.addrs:
                    i = u.insns[p]
                    succ = u.succ(f, p)
                    if x in succ and len(succ) == 1 and not i.mn.startswith('j') or (x in succ and i.mn == 'jmp'):
                        work.append(p)
        guards = {a for a in f.addrs if u.insns[a].mn.startswith('j') and u.insns[a].mn != 'jmp' and u.insns[a].target in exit_region}
        srcs = [a.insn.addr for a in info['accesses'] if a.kind == 'load' and a.addr[0] == 'P' and isinstance(a.addr[1], str) and a.addr[1].startswith('GLOBAL:rfc1951') and a.size == 4]
        sinks = {a.insn.addr for a in info['accesses'] if a.kind == 'load' and base_tag(a.addr) == 'OUT'}
        if not srcs or not sinks or not guards:
            raise AnalysisBroken('%s: expected distance-table loads, look-back reads and guards (found %d/%d/%d)' % (sym, len(srcs), len(sinks), len(guards)))
        bad = []
        for s_ in srcs:
            seen = set()
            work = list(u.succ(f, s_))
            while work:
                x = work.pop()
                if x in seen or x in guards:
                    continue
                seen.add(x)
                if x in sinks:
                    bad.append((s_, x))
                    continue
                if x in srcs:
                    continue
                work += u.succ(f, x)
        for s_, x in bad[:4]:
            R.fail('%s: %s' % (u.name, u.where(u.insns[x], f)), 'look-back read of the output buffer reachable from the distance-table load at %s+%#x without a branch to the ISAL_INVALID_LOOKBACK exit' % (sym, s_ - f.entry),
                   key='R-GUARD-SINK-ASM|%s|%#x' % (sym, x - f.entry))
        if not bad:
            R.ok(len(srcs), sample='%s: %d distance loads, %d look-back reads, %d guards' % (sym, len(srcs), len(sinks), len(guards)))
        check_guard_value(RV, info, guards, sinks, sym)
        dead = provenance.dead_compares(u, f)
        RD.ok(provenance.count_compares(u, f) - len(dead))
        for i in dead:
            RD.fail('%s: %s' % (u.name, u.where(i, f)), 'result of this compare is never consumed', key='L-DEADCMP|%s|%#x' % (sym, i.addr - f.entry))
    provenance.check_undef(rep, {'igzip_decode'}, 'INFLATE', 2)


def check_codelen_end(rep, mod):
    """setup_dynamic_header reads HLIT+HDIST code lengths with a cursor that the repeat codes 17/18 advance without a bound; RFC 1951 requires a
    header whose repeats run past the announced count to be rejected.  Difference bounds to `end` (ENDDIST): where the code lengths are turned
    into tables the cursor is provably <= end, from a comparison of the FINAL cursor with end that dominates that point."""
    import enddist
    R = rep.rule('R-CODELEN-END', 'setup_dynamic_header: at every use of the decoded lit/len + distance code lengths after the reading loop (set_codes / make_inflate_huff_code_*), the reading cursor is bounded by the '
                 'announced end (cursor - end <= 0 by a dominating comparison of the loop-carried cursor itself, not of a pre-advance value): a repeat code that runs past HLIT+HDIST is rejected', floor=3, unit='uses')
    f = mod.funcs.get('setup_dynamic_header')
    if f is None:
        raise AnalysisBroken('setup_dynamic_header not found')
    P = irrules.prov(mod, f)
    loops = [i for i in f.all_insns() if i.op == 'icmp' and (i.ty or '').endswith('*') and i.extra['pred'] == 'ult' and f.defs.get(i.ops[0]) is not None and f.defs[i.ops[0]].op == 'phi'
             and f.defs[i.ops[0]].block == i.block and any(a[0] == 'alloca' for a in P.atoms(i.ops[1]))]
    if len(loops) != 1:
        raise AnalysisBroken('setup_dynamic_header: expected one `while (cursor < end)` over a local array, found %d' % len(loops))
    cur, end = loops[0].ops
    arr = {a[1] for a in P.atoms(end) if a[0] == 'alloca'}
    ed = enddist.EndDist(mod, f, end)
    root, off0 = ed.ptr_lin(end)
    if root != end:
        ed.D[root] = -off0
    uses = [i for i in f.all_insns() if i.op == 'call' and re.sub(r'\.\d+$', '', i.callee or '') in ('set_codes', 'make_inflate_huff_code_lit_len', 'make_inflate_huff_code_dist')
            and any(a[0] == 'alloca' and a[1] in arr for _, v in i.args for a in P.atoms(v)) and f.dominates(loops[0].block, i.block)]
    if len(uses) < 2:
        raise AnalysisBroken('setup_dynamic_header: table-building calls on the code-length array not found')
    for u in uses:
        R.instance()
        d = ed.d_eff(cur, u.block)
        R.check(d is not None and d <= 0, mod.where(f, u), 'the code lengths are used although the reading cursor is only known to satisfy cursor - end <= %s here: a header whose repeat code (16/17/18) runs past HLIT+HDIST entries is accepted' %
                ('unbounded' if d is None else d), key='R-CODELEN-END|%s' % re.sub(r'\.\d+$', '', u.callee), sample='%s: cursor <= end' % u.callee)


def check_kraft_cover(rep):
    """RFC 1951: an over-subscribed code set must be rejected.  set_codes / set_and_expand_lit_len_huffcode compute the Kraft total as
    next_code[15] + count[15] with next_code[i] = (next_code[i-1] + count[i-1]) << 1: the total only counts every code length if the
    recurrence runs over i = 2..15 and the 15-bit codes are added at the end.  Closed forms of the accesses (scalar evolution)."""
    import scev
    from scev import canon, padd, pmul, pvar, pconst
    R = rep.rule('R-KRAFT-COVER', 'inflate code-set builders: the value compared with 1 << 15 before ISAL_INVALID_BLOCK is next_code[15] + count[15], and next_code[2..15] are produced by a loop of 14 iterations that stores '
                 '(next_code[i-1] + count[i-1]) << 1 at index i: the codes of every length 1..15 enter the over-subscription test', floor=2, unit='builders')
    A = scev.analysis('default')
    for fn in ('set_codes', 'set_and_expand_lit_len_huffcode'):
        F = scev.Forms(A, fn, [('smax', '0', '%shl96', 1)])
        f = F.f
        R.instance()

        def acc(i):
            b, ix = F.addr(i.ops[0] if i.op == 'load' else i.ops[1])
            if b is None:
                return None
            d = f.defs.get(b)
            kind = 'count' if b == '%count' else ('next_code' if d is not None and d.op == 'alloca' and 'next_code' in b else None)
            return (kind, canon(ix)) if kind else None

        def leaves(v, depth=0):
            d = f.defs.get(v)
            if d is None or depth > 10:
                return []
            if d.op == 'load':
                return [d]
            out = []
            if d.op in ('add', 'shl', 'zext', 'sext', 'trunc', 'or', 'mul'):
                for o in d.ops:
                    if not re.match(r'^-?\d+$', o):
                        out += leaves(o, depth + 1)
            return out
        problems = []
        cmps = [i for i in f.all_insns() if i.op == 'icmp' and i.ops[1] == '32768' and i.extra['pred'] in ('ugt', 'sgt')]
        if len(cmps) != 1:
            raise AnalysisBroken('%s: the comparison with 1 << 15 was not found' % fn)
        got = {acc(l) for l in leaves(cmps[0].ops[0])}
        want = {('next_code', canon(pconst(60))), ('count', canon(pconst(30)))}
        if got != want:
            problems.append('the total compared with 1 << 15 is built from %s, expected next_code[15] + count[15]' % sorted((k, scev.pfmt(dict(ix))) for k, ix in got if k))
        rec = []
        for st in f.all_insns():
            if st.op != 'store':
                continue
            a = acc(st)
            L = F.loop_of(st.block)
            if a and a[0] == 'next_code' and L and a[1] == canon(padd(pconst(8), pmul(pconst(4), pvar('n%' + L)))):
                src = {acc(l) for l in leaves(st.ops[0])}
                d = f.defs.get(irrules._strip(f, st.ops[0]))
                shifted = d is not None and d.op == 'shl' and d.ops[1] == '1'
                n = pvar('n%' + L)
                if src == {('next_code', canon(padd(pconst(4), pmul(pconst(4), n)))), ('count', canon(padd(pconst(2), pmul(pconst(2), n))))} and shifted and canon(F.count(L) or {}) == canon(pconst(14)):
                    rec.append(st)
        if len(rec) != 1:
            problems.append('no loop of 14 iterations storing next_code[i] = (next_code[i-1] + count[i-1]) << 1 for i = 2..15')
        zero = [st for st in f.all_insns() if st.op == 'store' and st.ops[0] == '0' and acc(st) in (('next_code', canon({})), ('next_code', canon(pconst(4))))]
        if len(zero) != 2:
            problems.append('next_code[0] and next_code[1] are not both initialised to 0')
        R.check(not problems, mod_where_c06(F, cmps[0]), '%s: %s: code sets whose excess lies in the code lengths left out are accepted although they are over-subscribed' % (fn, '; '.join(problems)),
                key='R-KRAFT-COVER|' + fn, sample='%s: total = next_code[15] + count[15] over lengths 1..15' % fn)


def mod_where_c06(F, i):
    return F.mod.where(F.f, i)


def main(tier):
    rep = Report('C06', tier, level='other')
    rep.undecided = UNDECIDED
    rep.explanation = ('No test of the suite feeds malformed input, so the ~20 error paths of inflate never execute. This check decides, from the IR and the assembled decoders, that each dangerous '
                       'operation (look-back copy, distance-table index, Huffman table construction, stored-block acceptance) is only reachable through the passed edge of its validation test '
                       '(edge-removal reachability), that the status codes returned are the documented ones in all three decoder variants, and that no compare in the asm decoders is dead.')
    rep.trusted = ['clang IR + sroa', 'tools/llir.py (dominators, dependencies, return sets)', 'nasm/objdump decoding, ASMFLOW']
    mod = llir.library('default')
    V = check_retcodes(rep, mod)
    rep.attempt(check_sinks_c, rep, mod, V)
    rep.attempt(check_overflow_needs_buffer, rep, mod)
    rep.attempt(check_asm, rep, V)
    rep.attempt(check_spec_advance, rep)
    rep.attempt(check_lookback_parked, rep, mod)
    rep.attempt(check_array_fills, rep, mod)
    rep.attempt(check_codelen_end, rep, mod)
    rep.attempt(check_kraft_cover, rep)
    import probepure
    rep.attempt(probepure.check_probe_pure, rep, mod)
    rep.attempt(probepure.check_trunc_cmp, rep, mod)
    rep.attempt(probepure.check_zero_run_siblings, rep, mod)
    import c19 as _c19
    rep.attempt(probepure.check_avail_unsigned, rep, mod, _c19.field_offsets('struct isal_zstream', ['avail_in', 'avail_out']), _c19.field_offsets('struct inflate_state', ['avail_in', 'avail_out']))
    import c02
    rep.attempt(c02.check_rollback, rep)      # the output-overflow exits of the asm decoders (R-PARKED-EXITCODE, R-PARK-EOB-ADJUST)
    import rollbackpair
    rep.attempt(rollbackpair.check, rep, mod, _c19.field_offsets('struct inflate_state', rollbackpair.IN_FIELDS + rollbackpair.OUT_FIELDS))
    import asmlin, c19
    rep.attempt(asmlin.check, rep, 'INFLATE', 6, c19.field_offsets('struct inflate_state', ['next_in', 'avail_in', 'next_out', 'avail_out', 'total_out']), r'^decode_huffman_code_block_stateless_0\d$')
    import siblings, fieldinit
    rep.attempt(siblings.check, rep, 'INFLATE', mod, {'decode_huffman_code_block_stateless_base': r'^decode_huffman_code_block_stateless_0\d$'}, sorted(fieldinit.struct_fields('inflate_state'), key=lambda x: x[1]), {}, 2)
    rep.attempt(asmlin.check_state_siblings, rep, 'INFLATE', mod, {'decode_huffman_code_block_stateless_base': r'^decode_huffman_code_block_stateless_0\d$'}, c19.field_offsets('struct inflate_state', ['block_state'])['block_state'], {}, 2)
    return rep.finish()
