"""C20 - zero detection exact.  Decided (structural): base variant: every remainder 1..7 reads
exactly bytes [0,n) after the cursor and ORs each into the result; all asm variants are
store-free and read only through the buffer argument; every compare consumed; return
constants are {0, non-zero}."""
import re
from common import Report, AnalysisBroken
import provenance, cast, cbuild, irrules
from provenance import base_tag
from asmflow import tag_name

UNDECIDED = 'the vector variants\' accumulate / overlapped-or-masked tail arithmetic and that no byte outside [buf, buf+len) is read (bounds)'
LOADERS = {'load_le_u16': 2, 'load_le_u32': 4, 'load_le_u64': 8, 'load_le_umax': 8}


def tail_reads(stmts, W):
    """abstractly execute the statements of a fall-through chain: returns (list of (offset,size), problems)"""
    o = 0
    reads = []
    problems = []
    for s in stmts:
        k = s.get('kind')
        if k == 'BreakStmt':
            return reads, problems, True
        if k != 'CompoundAssignOperator' or s.get('opcode') != '|=':
            problems.append('statement at line %s is not "a |= <load>"' % cast.line_of(s))
            continue
        lhs = cast.strip(s['inner'][0])
        if not (lhs.get('kind') == 'DeclRefExpr' and lhs['referencedDecl']['name'] == 'a'):
            problems.append('line %s does not accumulate into the result variable' % cast.line_of(s))
            continue
        rhs = cast.strip(s['inner'][1])
        if rhs.get('kind') == 'UnaryOperator' and rhs.get('opcode') == '*':
            p = cast.strip(rhs['inner'][0])
            if p.get('kind') == 'UnaryOperator' and p.get('opcode') == '++' and p.get('isPostfix'):
                q = cast.strip(p['inner'][0])
                if q.get('kind') == 'DeclRefExpr' and q['referencedDecl']['name'] == 'c':
                    reads.append((o, 1))
                    o += 1
                    continue
            if p.get('kind') == 'DeclRefExpr' and p['referencedDecl']['name'] == 'c':
                reads.append((o, 1))
                continue
        if rhs.get('kind') == 'CallExpr':
            cn = cast.callee_name(rhs)
            arg = cast.strip(cast.call_args(rhs)[0]) if cast.call_args(rhs) else {}
            if cn in LOADERS and arg.get('kind') == 'DeclRefExpr' and arg['referencedDecl']['name'] == 'c':
                reads.append((o, LOADERS[cn]))
                continue
        problems.append('line %s: unrecognised load expression' % cast.line_of(s))
    return reads, problems, False


def check_base(rep):
    R = rep.rule('R-TAIL-SWITCH', 'mem_zero_detect_base: the word loop consumes sizeof(uintmax_t) bytes per iteration; for each remainder k in 1..7 the fall-through path reads exactly bytes [0,k) at the cursor and ORs each into the result', floor=1, unit='functions')
    fa = cast.function_asts('mem/mem_zero_detect_base.c', 'mem_zero_detect_base')
    fn = fa.get('mem_zero_detect_base')
    if fn is None:
        raise AnalysisBroken('mem_zero_detect_base not found')
    R.instance()
    W = cbuild.probe_c('default', [], [('w', 'sizeof(uintmax_t)')], 'umax')['w']
    b = cast.body(fn)
    whiles = [n for n in b['inner'] if n.get('kind') in ('WhileStmt', 'ForStmt')]      # the word loop, written either way
    switches = [n for n in b['inner'] if n.get('kind') == 'SwitchStmt']
    rets = [n for n in b['inner'] if n.get('kind') == 'ReturnStmt']
    if len(whiles) != 1 or len(switches) != 1 or len(rets) != 1:
        raise AnalysisBroken('mem_zero_detect_base: unrecognised shape (while=%d switch=%d return=%d); the byte-loop idiom or the word-loop+switch idiom is expected' % (len(whiles), len(switches), len(rets)))
    wh = whiles[0]
    if wh['kind'] == 'ForStmt':
        if len(wh['inner']) != 5:
            raise AnalysisBroken('mem_zero_detect_base: for-statement with %d parts' % len(wh['inner']))
        # for (init; cond; inc) body == init; while (cond) { body; inc; } (the body has no continue)
        if cast.find_all(wh['inner'][4], 'ContinueStmt'):
            raise AnalysisBroken('mem_zero_detect_base: continue inside the word loop')
        wh = {'kind': 'WhileStmt', 'range': wh.get('range'), 'loc': wh.get('loc'), 'inner': [wh['inner'][2], {'kind': 'CompoundStmt', 'inner': [wh['inner'][4], wh['inner'][3]]}]}
    cond = cast.strip(wh['inner'][0])
    okc = cond.get('kind') == 'BinaryOperator' and cond.get('opcode') == '>=' and cast.strip(cond['inner'][0]).get('referencedDecl', {}).get('name') == 'n' and \
        cast.strip(cond['inner'][1]).get('kind') == 'UnaryExprOrTypeTraitExpr'
    R.check(okc, 'mem/mem_zero_detect_base.c:%d' % cast.line_of(wh), 'word loop condition is not n >= sizeof(uintmax_t)', sample='while (n >= sizeof(uintmax_t)) with W=%d' % W)
    wb = wh['inner'][1]
    calls = [cast.callee_name(c) for c in cast.find_all(wb, 'CallExpr')]
    R.check(calls == ['load_le_umax'] and W == LOADERS['load_le_umax'], 'mem/mem_zero_detect_base.c:%d' % cast.line_of(wh), 'word loop must test exactly one %d-byte load per iteration (calls: %s)' % (W, calls))
    steps = {}
    for n in cast.walk(wb):
        if n.get('kind') == 'CompoundAssignOperator':
            lhs = cast.strip(n['inner'][0])
            rhs = cast.strip(n['inner'][1])
            if lhs.get('kind') == 'DeclRefExpr':
                steps[lhs['referencedDecl']['name']] = (n['opcode'], rhs.get('kind'))
    R.check(steps.get('n') == ('-=', 'UnaryExprOrTypeTraitExpr') and steps.get('c') == ('+=', 'UnaryExprOrTypeTraitExpr'), 'mem/mem_zero_detect_base.c:%d' % cast.line_of(wh),
            'word loop must advance c by and reduce n by sizeof(uintmax_t): %s' % steps)
    ifs = cast.find_all(wb, 'IfStmt')
    okif = len(ifs) == 1 and cast.find_all(ifs[0], 'ReturnStmt')
    R.check(bool(okif), 'mem/mem_zero_detect_base.c:%d' % cast.line_of(wh), 'a non-zero word must return immediately')
    # switch arms in source order with fall-through
    sw = switches[0]
    seq = []
    for n in sw['inner'][1].get('inner', []):
        node = n
        labels = []
        while node.get('kind') in ('CaseStmt', 'DefaultStmt'):
            if node['kind'] == 'CaseStmt':
                v = cast.poly(node['inner'][0])
                labels.append(v[()] if v and list(v) == [()] else None)
            else:
                labels.append('default')
            node = node['inner'][-1]
        seq.append((labels, node))
    for k in range(1, W):
        start = None
        for idx, (labels, node) in enumerate(seq):
            if k in labels:
                start = idx
        if start is None:
            R.fail('mem/mem_zero_detect_base.c:%d' % cast.line_of(sw), 'no case for a remainder of %d bytes' % k, key='R-TAIL-SWITCH|case%d' % k)
            continue
        stmts = [node for labels, node in seq[start:]]
        reads, problems, ended = tail_reads(stmts, W)
        cover = sorted(reads)
        pos = 0
        exact = True
        for o, sz in cover:
            if o != pos:
                exact = False
            pos = o + sz
        exact = exact and pos == k
        R.check(exact and not problems and ended, 'mem/mem_zero_detect_base.c:%d (case %d)' % (cast.line_of(seq[start][1]), k),
                'remainder %d reads byte ranges %s relative to the cursor, expected exactly [0,%d)%s' % (k, cover, k, ('; ' + '; '.join(problems)) if problems else ''),
                key='R-TAIL-SWITCH|case%d' % k, sample='case %d reads %s' % (k, cover) if k in (5, 7) else None)
    r = rets[0]
    txt = [n for n in cast.walk(r) if n.get('kind') == 'BinaryOperator' and n.get('opcode') == '==']
    R.check(len(txt) == 1 and cast.strip(txt[0]['inner'][0]).get('referencedDecl', {}).get('name') == 'a', 'mem/mem_zero_detect_base.c:%d' % cast.line_of(r), 'result must be decided by a == 0')


def check_wordloop_width(rep, mod):
    """the portable detector looks at the buffer one machine word at a time: what it loads per step has to be as wide as the step"""
    R = rep.rule('R-WORDLOOP-WIDTH', 'mem_zero_detect_base: in the word loop the cursor advances by S bytes per iteration (constant GEP on the cursor phi) and the value tested is read through the cursor by a load of '
                 'exactly S bytes - followed through the inlined-at-source helpers of include/unaligned.h (read-width summary of each helper: the widest load through its pointer parameter, callees included): no '
                 'byte of a word is skipped by the test', floor=1, unit='word loops')
    f = mod.funcs.get('mem_zero_detect_base')
    if f is None:
        raise AnalysisBroken('mem_zero_detect_base not found')
    memo = {}

    def width(fn, pidx, stack=()):
        """bytes read starting at parameter pidx of fn (widest load at offset 0, through callees)"""
        fn = fn.lstrip('@')
        key = (fn, pidx)
        if key in memo:
            return memo[key]
        g = mod.funcs.get(fn)
        if g is None or key in stack:
            return None
        P = irrules.prov(mod, g)
        w = None
        for i in g.all_insns():
            if i.op == 'load' and P.atoms(i.ops[0]) == {('param', pidx, 0)}:
                m = re.match(r'^i(\d+)$', i.ty or '')
                if m:
                    w = max(w or 0, int(m.group(1)) // 8)
            elif i.op == 'call' and i.callee and not i.callee.startswith('llvm.dbg'):
                for k, (_, v) in enumerate(i.args or []):
                    if v.startswith('%') and P.atoms(v) == {('param', pidx, 0)}:
                        cw = width(i.callee, k, stack + (key,))
                        if cw is not None:
                            w = max(w or 0, cw)
        memo[key] = w
        return w
    n = 0
    for phi in [i for i in f.all_insns() if i.op == 'phi' and (i.ty or '') == 'i8*']:
        # the cursor: one incoming value is a constant GEP on the phi itself
        stride = None
        for v, _ in phi.extra['incoming']:
            d = f.defs.get(v)
            if d is not None and d.op == 'getelementptr' and d.ops[0] == phi.dst:
                idx = [x.split(' ')[-1] for x in (d.extra or {}).get('idx', [])]
                if len(idx) == 1 and re.match(r'^\d+$', idx[0]):
                    stride = int(idx[0])
        if not stride or stride < 2:
            continue
        reads = []
        for i in f.all_insns():
            if i.op == 'call' and i.callee and any(v == phi.dst for _, v in (i.args or [])):
                k = [j for j, (_, v) in enumerate(i.args) if v == phi.dst][0]
                reads.append((i, width(i.callee, k)))
            elif i.op == 'load' and irrules._strip(f, i.ops[0]) == phi.dst:
                m = re.match(r'^i(\d+)$', i.ty or '')
                reads.append((i, int(m.group(1)) // 8 if m else None))
        if not reads:
            continue
        n += 1
        R.instance()
        i, w = max(reads, key=lambda x: x[1] or 0)
        R.check(w == stride, mod.where(f, i), 'mem_zero_detect_base steps %d bytes per iteration but tests only %s bytes read at the cursor: non-zero bytes in the rest of each word go unnoticed' % (stride, w),
                key='R-WORDLOOP-WIDTH|%d' % stride, sample='step %d bytes, load %s bytes' % (stride, w))
    if n == 0:
        raise AnalysisBroken('mem_zero_detect_base: no word loop (cursor advanced by a constant >= 2 and read through) found')


def main(tier):
    rep = Report('C20', tier, level='other')
    rep.undecided = UNDECIDED
    rep.explanation = ('AST lint of the portable variant (abstract cursor over the fall-through switch: each remainder reads exactly its bytes, each ORed into the result) and '
                       'pointer-provenance + flag-liveness dataflow over the four asm variants (store-free, loads only through the buffer argument, every ptest/cmp consumed, return constants). '
                       'The sse/avx/avx2/base variants are never executed by the suite on this host.')
    rep.trusted = ['clang AST', 'nasm/objdump decoding', 'ASMFLOW transfer functions (fail-closed)']
    rep.attempt(check_base, rep)
    import llir
    rep.attempt(check_wordloop_width, rep, llir.library('default'))
    R = rep.rule('P-MEM-STORE', 'zero-detect kernels store nothing outside their stack frame and load only through the buffer argument', floor=4, unit='kernels')
    RD = rep.rule('L-DEADCMP-MEM', 'every flag-setting compare is consumed', floor=4, unit='kernels')
    RR = rep.rule('R-RET-MEM', 'return value is the constant 0 or a non-zero constant on every path', floor=4, unit='kernels')
    res, _ = provenance.analyse('default')
    for sym, info in sorted(res.items()):
        if info['fam']['family'] != 'mem_zero':
            continue
        R.instance()
        RD.instance()
        RR.instance()
        u, f = info['unit'], info['func']
        provenance.check_access_sets(R, sym, info, {'STACK'}, {'BUF', 'STACK', 'GLOBAL'}, key_prefix='P-MEM-STORE')
        dead = provenance.dead_compares(u, f)
        RD.ok(provenance.count_compares(u, f) - len(dead), sample='%s: %d compares, all consumed' % (sym, provenance.count_compares(u, f)))
        for i in dead:
            RD.fail('%s: %s' % (u.name, u.where(i, f)), 'result of this compare is never consumed (a non-zero block would go unnoticed)', key='L-DEADCMP|%s|%#x' % (sym, i.addr - f.entry))
        kinds = set(provenance.ret_kinds(u, f, info['flow']).values())
        ok = ('unknown',) not in kinds and (('bool',) in kinds or (('const', 0) in kinds and any(k[0] == 'const' and k[1] != 0 for k in kinds)))
        RR.check(ok, '%s:%s' % (u.name, sym), 'return values %s are not {0, non-zero constant} / a 0-1 flag' % sorted(map(str, kinds)),
                 sample='%s returns %s' % (sym, sorted(map(str, kinds))))
    rep.attempt(provenance.check_undef, rep, {'mem_zero'}, 'MEM', 4)
    rep.attempt(provenance.check_kwidth, rep, {'mem_zero'}, 'MEM', 4)
    rep.attempt(check_noload, rep)
    rep.attempt(check_combine, rep)
    import bounds
    rep.attempt(bounds.check, rep, {'mem_zero'}, 'MEM', 2)
    rep.attempt(bounds.check_len_width, rep, {'mem_zero'}, 'MEM', 4)
    import stridecover
    rep.attempt(stridecover.check, rep, 'MEM', {'mem_zero'}, 8)
    import deadvdef
    rep.attempt(deadvdef.check, rep, 'MEM', r'^mem/', 40)
    return rep.finish()


# one instruction, one reason: the flag operand is provably 0 here
COMBINE_EXCEPT = {('mem_zero_detect_avx2', 'add eax,edx'): 'prologue of the >= 128-byte path: the flag is setz of (len >> 7), which is >= 1 on this path, so the addition adds 0',
                  ('mem_zero_detect_avx512', 'add eax,edx'): 'both operands are 0/1 flags (setz / setnz); no data-derived mask is involved'}


def check_combine(rep):
    import zerotype
    R = rep.rule('L-ZERO-COMBINE', 'mem_zero_detect kernels: everything derived from the buffer (loaded vectors/words, their OR-combinations, non-zero masks) is combined only by OR, copies, comparison with zero and complement '
                 'of a zero mask; an addition/subtraction/xor/and/shift of such a value, or a PTEST/VPTESTM of two different data registers (AND), can cancel or drop a set bit - either a non-zero byte goes unseen '
                 'or a loop condition wraps', floor=4, unit='kernels')
    res, _ = provenance.analyse('default')
    for sym, info in sorted(res.items()):
        if info['fam']['family'] != 'mem_zero':
            continue
        R.instance()
        u, f = info['unit'], info['func']
        bufl = {(a.insn.addr, a.opidx) for a in info['accesses'] if a.kind in ('load', 'rmw') and base_tag(a.addr) == 'BUF'}

        def isb(i, o, bufl=bufl):
            return any((i.addr, k) in bufl for k, x in enumerate(i.ops) if x == o)
        out, n = zerotype.analyse(u, f, isb)
        if n < 5:
            raise AnalysisBroken('%s: only %d operations on buffer-derived values recognised' % (sym, n))
        nbad = 0
        for i, why, ts in out:
            key = (sym, re.sub(r'\s+', ' ', i.text).replace(', ', ','))
            if key in COMBINE_EXCEPT:
                R.notes.append('%s: "%s" accepted: %s' % (sym, key[1], COMBINE_EXCEPT[key]))
                continue
            nbad += 1
            R.fail('%s: %s' % (u.name, u.where(i, f)), '"%s" %s (operand kinds %s)' % (i.text, why, '/'.join(ts)), key='L-ZERO-COMBINE|%s|%s' % key)
        if not nbad:
            R.ok(n, sample='%s: %d operations on buffer-derived values, all OR / copy / zero-compare' % (sym, n))


def check_noload(rep):
    """a zero-detect kernel cannot answer for a non-empty buffer without reading it: on the sub-graph of the CFG that avoids every load
    from the buffer, the facts the taken branches establish about len (BOUNDS: lower/upper bound, congruence) must leave len == 0 as the only
    possibility at every return"""
    import bounds
    R = rep.rule('M-NOLOAD-ZERO', 'mem_zero_detect kernels: every return reachable from the entry without executing a load from the buffer is reachable only when len == 0 '
                 '(abstract interpretation of the branch conditions on len along the load-free paths: interval and congruence of len at the return admit no value >= 1)', floor=4, unit='kernels')
    res, _ = provenance.analyse('default')
    for sym, info in sorted(res.items()):
        if info['fam']['family'] != 'mem_zero':
            continue
        R.instance()
        u, f = info['unit'], info['func']
        loads = {a.insn.addr for a in info['accesses'] if a.kind in ('load', 'rmw') and base_tag(a.addr) == 'BUF'}
        if not loads:
            raise AnalysisBroken('%s: no load from the buffer recognised' % sym)
        bd = bounds.Bounds(u, f, info['flow'], 'rsi', cut=loads)
        bd.run()
        nret = 0
        for a in f.addrs:
            if u.insns[a].mn != 'ret' or a not in bd.IN:
                continue
            nret += 1
            st = bd.IN[a]
            lo = max(st.nlo or 0, 1)
            m, r = st.nmod
            w = lo + ((r - lo) % m if m > 1 else 0)       # smallest len >= 1 with the known residue
            bad = st.nhi is None or w <= st.nhi
            R.check(not bad, '%s: %s' % (u.name, u.where(u.insns[a], f)), 'this return is reachable without reading a single byte of the buffer for len = %d (known on these paths: %s <= len <= %s, len = %d mod %d): '
                    'the result cannot depend on the contents' % (w, st.nlo, 'unbounded' if st.nhi is None else st.nhi, r, m), key='M-NOLOAD-ZERO|%s|%#x' % (sym, a - f.entry),
                    sample='%s: load-free return only for len == 0 (len <= %s, len = %d mod %d)' % (sym, st.nhi, r, m))
        if nret == 0:
            R.ok(1, sample='%s: no return is reachable without a load from the buffer' % sym)
