"""C04 - CRC and Adler-32 equal their mathematical definitions and compose.  Decided
(structural): every CRC lookup table = byte-CRC of the documented polynomial; every folding
constant rk* of every PCLMUL kernel is congruent to x^e mod P for the exponent the fold
geometry prescribes; Barrett constants; base-function<->table pairing and inversion
convention; Adler modulus / overflow bounds; checksum kernels are store-free."""
import re, struct
from common import Report, AnalysisBroken
import cbuild, srcset, asmdb, mirror, gf2, common
import irrules
srcset.REPO = common.REPO
from elf import Elf
from irtext import IRModule

UNDECIDED = ('that the folding code computes the CRC (pclmulqdq immediates, register mix-ups, tail handling) and seed chaining; '
             'only constants, table contents, pairing and write-freedom are decided')

# name -> (normal polynomial without top term, width, reflected, inverts seed/result, published check of "123456789" for that convention)
CRCS = {
    'crc16_t10dif': (0x8BB7, 16, False, False, 0xD0DB),
    'crc32_ieee': (0x04C11DB7, 32, False, True, 0xFC891918),       # CRC-32/BZIP2
    'crc32_gzip_refl': (0x04C11DB7, 32, True, True, 0xCBF43926),   # CRC-32/ISO-HDLC
    'crc32_iscsi': (0x1EDC6F41, 32, True, False, None),            # raw register function; CRC-32C needs init/xorout by the caller
    'crc64_ecma_refl': (0x42F0E1EBA9EA3693, 64, True, True, 0x995DC9BBDF1939FA),   # CRC-64/XZ
    'crc64_ecma_norm': (0x42F0E1EBA9EA3693, 64, False, True, 0x62EC59E3F1A4F00A),  # CRC-64/WE
    'crc64_iso_refl': (0x1B, 64, True, True, 0xB90956C775A41001),                  # CRC-64/GO-ISO
    'crc64_iso_norm': (0x1B, 64, False, True, None),
    'crc64_jones_refl': (0xad93d23594c935a9, 64, True, True, None),
    'crc64_jones_norm': (0xad93d23594c935a9, 64, False, True, None),
    'crc64_rocksoft_refl': (0xad93d23594c93659, 64, True, True, None),
    'crc64_rocksoft_norm': (0xad93d23594c93659, 64, False, True, None),
}
TABLES = {
    'crc16_t10dif': ('crc/crc_base.c', 'crc16tab'), 'crc32_ieee': ('crc/crc_base.c', 'crc32_table_ieee_norm'),
    'crc32_gzip_refl': ('crc/crc_base.c', 'crc32_table_gzip_refl'), 'crc32_iscsi': ('crc/crc_base.c', 'crc32_table_iscsi_refl'),
}
for _k in CRCS:
    if _k.startswith('crc64'):
        TABLES[_k] = ('crc/crc64_base.c', _k + '_table')
BASEFN = {k: k + '_base' for k in CRCS}
EXTRA_BASEFN = {'crc16_t10dif_copy_base': 'crc16_t10dif'}


def check_tables(rep):
    Rr = rep.rule('T-CRC-TAB', 'all 256 entries of every CRC lookup table equal the CRC of the single byte under the documented polynomial', floor=12, unit='tables')
    Rs = rep.rule('T-CRC-REF', 'the checker\'s reference polynomials reproduce the published check values of "123456789"', floor=6, unit='check values')
    objs = cbuild.objs('default', ['crc/crc_base.c', 'crc/crc64_base.c'])
    elfs = {u: Elf(o) for u, o in objs.items()}
    for name, (poly, w, refl, inv, chk) in sorted(CRCS.items()):
        if chk is not None:
            Rs.instance()
            init = (1 << w) - 1 if inv else 0
            got = gf2.crc_bitwise(b'123456789', poly, w, refl, init, init)
            Rs.check(got == chk, 'tools/gf2.py:%s' % name, 'reference gives %#x, published check value %#x' % (got, chk), sample='%s("123456789") = %#x' % (name, chk))
        unit, sym = TABLES[name]
        b = elfs[unit].symbytes(sym)
        if b is None:
            raise AnalysisBroken('CRC table %s not found in %s' % (sym, unit))
        Rr.instance()
        fmt = {16: 'H', 32: 'I', 64: 'Q'}[w]
        if len(b) < 256 * w // 8:
            Rr.fail('%s:%s' % (unit, sym), 'table has fewer than 256 entries')
            continue
        vals = struct.unpack_from('<256' + fmt, b)
        ref = gf2.crc_byte_table(poly, w, refl)
        for i in range(256):
            Rr.check(vals[i] == ref[i], '%s:%s[%d]' % (unit, sym, i), 'entry %#x, byte-CRC under polynomial %#x (%s) is %#x' % (vals[i], poly, 'reflected' if refl else 'normal', ref[i]),
                     key='T-CRC-TAB|%s' % sym, sample='%s[1]=%#x' % (sym, ref[1]) if i == 1 else None)


def check_pairing(rep):
    Rr = rep.rule('R-CRC-PAIR', 'each *_base function reads exactly its own table and inverts seed/result iff its definition does', floor=13, unit='functions')
    lls = cbuild.lls('default', ['crc/crc_base.c', 'crc/crc64_base.c'])
    mods = {u: IRModule(p, u) for u, p in lls.items()}
    fns = dict(BASEFN)
    allfn = {v: k for k, v in fns.items()}
    allfn.update(EXTRA_BASEFN)
    alltabs = {t for _, t in TABLES.values()}
    for fn, crc in sorted(allfn.items()):
        unit, tab = TABLES[crc]
        f = mods[unit].funcs.get(fn)
        if f is None:
            raise AnalysisBroken('base function %s not found in %s' % (fn, unit))
        Rr.instance()
        used = {r for r in f.refs if r in alltabs}
        Rr.check(used == {tab}, '%s:%s' % (unit, fn), 'reads table(s) %s, its definition uses %s' % (sorted(used), tab), sample='%s -> %s' % (fn, tab) if fn.startswith('crc64_jones') else None)
        ninv = len(re.findall(r'xor i(?:16|32|64) %[\w.]+, -1', f.body))
        inv = CRCS[crc][3]
        Rr.check((ninv == 2) if inv else (ninv == 0), '%s:%s' % (unit, fn), '%d bitwise inversions, definition has %s' % (ninv, 'seed and result inversion' if inv else 'none'))


def poly_class_norm(v, w, P):
    """constant stored pre-shifted by (64-w) (32-bit frame for w<=32): class of v / x^(64-w)"""
    sh = 64 - w if w == 64 else 32   # 16- and 32-bit CRCs are computed in a 32-bit frame placed in the high half
    return v, sh


def xinv(P):
    # x^-1 mod P = (P+1)/x   (P has constant term 1)
    return (P ^ 1) >> 1


def class_of(v, kind, w, P):
    """residue class (mod P) that the stored 64-bit constant v represents under the family's
    fixed bit<->exponent map.  normal: bit i <-> x^(i - shift) with shift = 32 (w<=32: constants
    live in the high half) or 0 (w=64).  reflected: bit i <-> x^(w' - i), w' = 32 or 64."""
    if kind == 'norm':
        if w == 64:
            return gf2.pmod(v, P)
        # v = n << 32 : require low half empty, then class of n; a 16-bit CRC lives in the top 16 bits of the frame
        if v & 0xffffffff:
            return None
        if w == 16 and (v >> 32) & 0xffff:
            return None
        return gf2.pmod(v >> 32, P)
    wf = 64 if w == 64 else 32
    acc = 0
    xi = xinv(P)
    # sum over set bits i of x^(wf - i); negative exponents through x^-1
    for i in range(v.bit_length()):
        if v >> i & 1:
            e = wf - i
            if e >= 0:
                acc ^= gf2.xpow_mod(e, P)
            else:
                t = 1
                for _ in range(-e):
                    t = gf2.pmod(gf2.clmul(t, xi), P)
                acc ^= t
    return acc


def expected_exponents(kind, w, names):
    """fold geometry -> exponent for every rk label.  (lo, hi)(d) for a fold distance of d bytes"""
    if w == 64:
        lo = lambda d: 8 * d
        hi = lambda d: 8 * d + 64
        red = {}
    else:
        # 32-bit frame; crc16 is computed in the same frame with P*x^16, its constants are (x^(e-16) mod P)*x^16,
        # i.e. the same residue classes x^e mod P, restricted to multiples of x^16 (checked in class_of)
        lo = lambda d: 8 * d - 32
        hi = lambda d: 8 * d + 32
        red = {'rk6': 64}
    main = 128 if 'rk9' in names else 64       # by8/by16 kernels fold 8x16 bytes per iteration, by4 kernels 4x16
    exp = {'rk1': lo(16), 'rk2': hi(16), 'rk3': lo(main), 'rk4': hi(main), 'rk5': lo(16),
           'rk_1': lo(256), 'rk_2': hi(256), 'rk_1b': lo(16), 'rk_2b': hi(16), 'rk1_b': lo(16), 'rk2_b': hi(16)}
    exp.update(red)
    d = 112
    for k in range(9, 21, 2):
        exp['rk%d' % k] = lo(d)
        exp['rk%d' % (k + 1)] = hi(d)
        d -= 16
    return exp


def kernel_family(unitbase):
    key = max([k for k in CRCS if unitbase.startswith(k)], key=len)
    poly, w, refl, inv, chk = CRCS[key]
    return key, (1 << w) | poly, w, 'refl' if refl else 'norm'


def check_rk(rep, units):
    Rr = rep.rule('T-CRC-RK', 'every folding constant rk* is congruent to x^e mod P for the exponent the fold geometry prescribes (pairs 8d-/+w for fold distance d)', floor=30, unit='kernels')
    Rb = rep.rule('T-CRC-BARRETT', 'rk7/rk8 are the Barrett pair floor(x^2w/P) and P in the family\'s representation', floor=30, unit='kernels')
    M64 = (1 << 64) - 1
    nconst = 0
    for un, u in sorted(units.items()):
        if not un.startswith('crc/') or 'multibinary' in un:
            continue
        b = un.split('/')[1][:-4]
        syms = [y for y in u.elf.symlist if y.name and re.match(r'^rk\w*$', y.name) and y.sec and not y.sec.startswith('.debug')]
        if not syms:
            continue
        key, P, w, kind = kernel_family(b)
        Rr.instance()
        Rb.instance()
        names = {y.name for y in syms}
        exp = expected_exponents(kind, w, names)
        vals = {}
        for y in syms:
            bb = u.elf.symbytes(y.name, 8)
            vals[y.name] = int.from_bytes(bb, 'little')
        for nm in sorted(names):
            where = '%s:%s' % (un, nm)
            v = vals[nm]
            if nm in ('rk7', 'rk8'):
                continue
            if nm == 'rk6' and w == 64:
                Rr.check(v == 0, where, 'unused slot rk6 of a 64-bit CRC kernel is expected to be 0', key='T-CRC-RK|%s|%s' % (b, nm))
                continue
            if nm not in exp:
                raise AnalysisBroken('%s: folding-constant label %s has no role in the fold geometry known to the checker' % (un, nm))
            c = class_of(v, kind, w, P)
            want = gf2.xpow_mod(exp[nm], P)
            nconst += 1
            Rr.check(c is not None and c == want, where, 'constant %#x is not congruent to x^%d mod P (%s %d-bit, P=%#x)' % (v, exp[nm], kind, w, P), key='T-CRC-RK|%s|%s' % (b, nm),
                     sample='%s %s = %#x == x^%d mod P' % (b, nm, v, exp[nm]) if nm == 'rk3' and b.endswith('by8') else None)
        # Barrett pair
        if 'rk7' in vals and 'rk8' in vals:
            if kind == 'norm':
                if w == 64:
                    e7 = gf2.pdivmod(1 << 128, P)[0] & M64
                    e8 = P & M64
                else:
                    P32 = P << (32 - w)
                    e7 = gf2.pdivmod(1 << 64, P32)[0]
                    e8 = P32
            else:
                if w == 64:
                    q = gf2.pdivmod(1 << 128, P)[0]
                    e7 = gf2.bitrev(q, 65) & M64
                    e8 = (gf2.bitrev(P & M64, 64) << 1) & M64
                else:
                    q = gf2.pdivmod(1 << 64, P)[0]
                    e7 = gf2.bitrev(q & 0xffffffff, 32) << 1
                    e8 = gf2.bitrev(P & 0xffffffff, 32) << 1
            Rb.check(vals['rk7'] == e7, '%s:rk7' % un, 'is %#x, floor(x^2w/P) in this representation is %#x' % (vals['rk7'], e7), key='T-CRC-BARRETT|%s|rk7' % b)
            # reflected 32-bit kernels keep P' with or without the x^32 term bit; accept both spellings of the same polynomial
            ok8 = vals['rk8'] == e8 or (kind == 'refl' and w == 32 and vals['rk8'] == (e8 | 1))
            Rb.check(ok8, '%s:rk8' % un, 'is %#x, the polynomial in this representation is %#x' % (vals['rk8'], e8), key='T-CRC-BARRETT|%s|rk8' % b,
                     sample='%s rk8 = %#x' % (b, e8) if b == 'crc32_ieee_by4' else None)
        else:
            Rb.fail(un, 'kernel has folding constants but no rk7/rk8 Barrett pair', key='T-CRC-BARRETT|%s|missing' % b)
    Rr.notes.append('%d folding constants checked' % nconst)


def check_iscsi_merge(rep, units):
    """the two crc32-instruction iSCSI kernels carry stream-merge tables instead of rk constants"""
    Rr = rep.rule('T-CRC-ISCSI-MERGE', 'merge tables of crc32_iscsi_00/_01 equal x^(shift) mod P for the block geometry their code uses', floor=2, unit='kernels')
    P = (1 << 32) | CRCS['crc32_iscsi'][0]
    # _01: K_table[idx] = (x^(128 idx - 32), x^(64 idx - 32)), idx = 1..128: three streams of idx*8 bytes are merged by pclmul
    u = units.get('crc/crc32_iscsi_01.asm')
    if u is None:
        raise AnalysisBroken('crc/crc32_iscsi_01.asm not in the build')
    b = u.elf.sym_extent('K_table')
    if b is None:
        raise AnalysisBroken('K_table not found in crc32_iscsi_01')
    Rr.instance()
    vals = struct.unpack('<%dQ' % (len(b) // 8), b)
    f = u.funcs.get('crc32_iscsi_01')
    nblk = len(f.extra_succ[sorted(f.extra_succ)[0]]) - 1 if f and f.extra_succ else 0   # jump table has entries 0..128
    Rr.check(len(vals) >= 2 * nblk and nblk >= 1, 'crc/crc32_iscsi_01.asm:K_table', 'K_table has %d entries, the computed jump reaches %d block sizes' % (len(vals), nblk))
    for idx in range(1, min(nblk, len(vals) // 2) + 1):
        for k, e in ((0, 128 * idx - 32), (1, 64 * idx - 32)):
            v = vals[2 * (idx - 1) + k]
            c = class_of(v, 'refl', 32, P)
            Rr.check(c == gf2.xpow_mod(e, P), 'crc/crc32_iscsi_01.asm:K_table[%d].%d' % (idx, k), 'constant %#x is not congruent to x^%d mod P' % (v, e), key='T-CRC-ISCSI-MERGE|K_table',
                     sample='K_table[idx=%d] = x^%d, x^%d' % (idx, 128 * idx - 32, 64 * idx - 32) if idx == 128 and k == 0 else None)
    # _00: mul_table_<M>[b] = reflect32( b(x) * x^(8M+24) mod P ); crcB3 S,td1,td2 must address tables for 2S-8 and S-8 bytes
    u = units.get('crc/crc32_iscsi_00.asm')
    if u is None:
        raise AnalysisBroken('crc/crc32_iscsi_00.asm not in the build')
    Rr.instance()
    tabs = {}
    for y in u.elf.symlist:
        m = re.match(r'^mul_table_(\d+)$', y.name or '')
        if m and y.sec == '.data':
            tabs[int(m.group(1))] = y
    if len(tabs) < 5:
        raise AnalysisBroken('crc32_iscsi_00: expected 5 mul_table_<M> tables, found %s' % sorted(tabs))
    base = min(y.value for y in tabs.values())
    for M, y in sorted(tabs.items()):
        bb = u.elf.symbytes(y.name, 1024)
        t = struct.unpack('<256I', bb)
        E = 8 * M + 24
        bit = [gf2.bitrev(gf2.xpow_mod(E + (7 - j), P), 32) for j in range(8)]
        for i in range(256):
            e = 0
            for j in range(8):
                if i >> j & 1:
                    e ^= bit[j]
            Rr.check(t[i] == e, 'crc/crc32_iscsi_00.asm:%s[%d]' % (y.name, i), 'entry %#x, byte*x^%d mod P is %#x' % (t[i], E, e), key='T-CRC-ISCSI-MERGE|%s' % y.name,
                     sample='%s[0x80] = x^%d mod P' % (y.name, E) if i == 0x80 and M == 72 else None)
    src = open(srcset.REPO + '/crc/crc32_iscsi_00.asm').read()
    inv = re.findall(r'^\s*crcB3\s+(\d+)\s*,\s*(0x[0-9a-fA-F]+|\d+)\s*,\s*(0x[0-9a-fA-F]+|\d+)', src, re.M)
    if len(inv) < 4:
        raise AnalysisBroken('crc32_iscsi_00: crcB3 invocations not found')
    off2M = {y.value - base: M for M, y in tabs.items()}
    for S, td1, td2 in inv:
        S, td1, td2 = int(S), int(td1, 0), int(td2, 0)
        Rr.check(off2M.get(td1) == 2 * S - 8 and off2M.get(td2) == S - 8, 'crc/crc32_iscsi_00.asm:crcB3 %d' % S,
                 'block size %d needs the tables for %d and %d bytes; offsets %#x/%#x select %s/%s' % (S, 2 * S - 8, S - 8, td1, td2, off2M.get(td1), off2M.get(td2)),
                 sample='crcB3 %d -> tables %d,%d' % (S, 2 * S - 8, S - 8) if S == 640 else None)


def check_adler(rep):
    Rr = rep.rule('T-ADLER', 'Adler-32 modulus is 65521 everywhere and the deferred-modulo schedules cannot overflow their accumulators', floor=4, unit='constants/bounds')
    cv, drop = mirror.c_values('default', ['igzip_checksums.h'], [('ADLER_MOD', 'ADLER_MOD'), ('MAX_ADLER_BUF', 'MAX_ADLER_BUF')], 'adler')
    if drop:
        raise AnalysisBroken('ADLER_MOD/MAX_ADLER_BUF missing')
    Rr.instance()
    Rr.check(cv['ADLER_MOD'] == 65521, 'igzip/igzip_checksums.h:ADLER_MOD', 'is %d, RFC 1950 says 65521' % cv['ADLER_MOD'], sample='ADLER_MOD = 65521')
    # scalar schedule: accumulator width from the IR of adler32_base
    ll = cbuild.lls('default', ['igzip/adler32_base.c'])['igzip/adler32_base.c']
    m = IRModule(ll)
    f = m.funcs.get('adler32_base')
    if f is None:
        raise AnalysisBroken('adler32_base not found')
    accw = set(re.findall(r'%(?:A|B) = alloca i(\d+)', f.body))
    if len(accw) != 1:
        raise AnalysisBroken('adler32_base: cannot determine accumulator width (%s)' % accw)
    W = int(accw.pop())
    n = cv['MAX_ADLER_BUF']
    mod = cv['ADLER_MOD']
    # entry: A,B < 2^16 (A = adler & 0xffff, B = adler >> 16 of a 32-bit value); afterwards < mod
    worstB = 65535 + n * 65535 + 255 * n * (n + 1) // 2
    Rr.instance()
    Rr.check(worstB < (1 << W), 'igzip/adler32_base.c:adler32_base', 'B can reach %d >= 2^%d within MAX_ADLER_BUF=%d bytes' % (worstB, W, n),
             sample='B <= %d < 2^%d for MAX_ADLER_BUF=%d' % (worstB, W, n))
    urem = set(re.findall(r'urem i%d %%[\w.]+, (\d+)' % W, f.body))
    Rr.check(urem == {str(mod)}, 'igzip/adler32_base.c:adler32_base', 'modulo operations use %s, expected only %d' % (sorted(urem), mod))
    nmax = 0
    while 255 * (nmax + 1) * (nmax + 2) // 2 + (nmax + 2) * (mod - 1) <= 0xffffffff:
        nmax += 1
    for inc in ('adler32_sse.asm', 'adler32_avx2_4.asm'):
        av, adrop = mirror.asm_values('default', [inc], ['BASE', 'LIMIT'], 'adler_' + inc[:-4])
        if 'BASE' not in av or 'LIMIT' not in av:
            raise AnalysisBroken('%s: BASE/LIMIT not defined' % inc)
        Rr.instance()
        Rr.check(av['BASE'] == mod, 'igzip/%s:BASE' % inc, 'is %d, modulus is %d' % (av['BASE'], mod))
        Rr.check(0 < av['LIMIT'] <= nmax, 'igzip/%s:LIMIT' % inc, 'is %d; the largest block that cannot overflow 32-bit accumulators is %d' % (av['LIMIT'], nmax),
                 sample='%s LIMIT=%d <= %d' % (inc, av['LIMIT'], nmax))


def check_inversion(rep):
    import crcinv, llir, irrules, provenance
    R = rep.rule('R-CRC-INVERT', 'seed / result inversion convention: for every CRC entry point, the portable C implementation and every asm variant complement the seed before use the same number of times (0 or 1) '
                 'and complement the returned value the same number of times, on every path (crc32_ieee, crc32_gzip_refl and the crc64 family invert both; crc16_t10dif and crc32_iscsi invert neither)', floor=13, unit='entry points')
    res, _ = provenance.analyse('default')
    mod = llir.library('default')
    groups = {}
    for sym, info in sorted(res.items()):
        if info['fam']['family'] not in ('crc', 'crc_copy'):
            continue
        base = re.sub(r'_(0[0-2]|by4|by8|by8_02|by16_10|by4_02)$', '', sym)
        ins, outs = crcinv.asm_convention(info['unit'], info['func'], 'rdx' if 'iscsi' in sym else 'rdi')
        groups.setdefault(base, []).append((sym, '%s:%s' % (info['unit'].name, sym), ins, outs))
    for fn, f in sorted(mod.funcs.items()):
        m = re.match(r'^(crc(?:16|32|64)_\w+)_base$', fn)
        if m:
            ins, outs = crcinv.c_convention(f, 2 if 'iscsi' in fn else 0, irrules._strip)
            groups.setdefault(m.group(1), []).append((fn, mod.where(f, None), ins, outs))
    for base, members in sorted(groups.items()):
        R.instance()
        if len(members) < 2:
            raise AnalysisBroken('R-CRC-INVERT: entry point %s has a single implementation' % base)
        conv = set()
        for sym, where, ins, outs in members:
            ok = len(ins) == 1 and len(outs) == 1 and all(x in (0, 1) for x in ins | outs)
            R.check(ok, where, '%s: the seed is used with inversion parities %s and the result is returned with parities %s: not one convention on every path' % (sym, sorted(map(str, ins)), sorted(map(str, outs))),
                    key='R-CRC-INVERT|%s|paths' % sym)
            if ok:
                conv.add((list(ins)[0], list(outs)[0]))
        want = (1, 1) if re.match(r'^crc32_(ieee|gzip_refl)$|^crc64_', base) else (0, 0)
        R.check(conv == {want}, members[0][1], 'entry point %s: its implementations use the conventions %s (seed inverted, result inverted); all of them must use %s - a variant that differs returns a different CRC for the same data' %
                (base, {s_: (list(i_)[0] if len(i_) == 1 else '?', list(o_)[0] if len(o_) == 1 else '?') for s_, _, i_, o_ in members}, want), key='R-CRC-INVERT|%s' % base,
                sample='%s: %d implementations, convention %s' % (base, len(members), want))


def check_base_step(rep):
    """the byte-at-a-time update of the table-driven portable CRCs, as an expression tree over the linked IR:
         normal (MSB first):  crc' = (crc << 8) ^ tab[((crc >> (W - 8)) ^ byte) & 0xff]
         reflected:           crc' = (crc >> 8) ^ tab[(crc ^ byte) & 0xff]
    with the byte read at a cursor that advances by one per iteration over len iterations (scalar evolution)."""
    import llir, irrules, scev
    R = rep.rule('T-CRC-BASE-STEP', 'every *_base CRC routine: the loop-carried register is updated as (crc << 8) ^ table[((crc >> (W-8)) ^ byte) & 0xff] for the MSB-first CRCs and (crc >> 8) ^ table[(crc ^ byte) & 0xff] for the '
                 'reflected ones (expression tree, casts ignored, W = 16/32/64 from the catalogue), and the byte comes from a cursor advancing by 1 over len iterations', floor=13, unit='functions')
    A = scev.analysis('default')
    mod = A['#module']
    allfn = {v: k for k, v in BASEFN.items()}
    allfn.update(EXTRA_BASEFN)
    for fn, crc in sorted(allfn.items()):
        poly, W, refl, inv, _chk = CRCS[crc]
        f = mod.funcs.get(fn)
        if f is None:
            raise AnalysisBroken(fn + ' not found in the linked IR')
        R.instance()
        F = scev.Forms(A, fn, [])
        P = irrules.prov(mod, f)
        tab = TABLES[crc][1]

        def strip(v):
            d = f.defs.get(v)
            while d is not None and d.op in ('zext', 'sext', 'trunc', 'freeze'):
                v = d.ops[0]
                d = f.defs.get(v)
            return v

        def tree(v, depth=0):
            v = strip(v)
            if re.match(r'^-?\d+$', v):
                return ('c', int(v))
            d = f.defs.get(v)
            if d is None or depth > 10:
                return ('?', v)
            if d.op == 'phi':
                return ('crc', v)
            if d.op in ('xor', 'and', 'or'):
                return (d.op,) + tuple(sorted([tree(d.ops[0], depth + 1), tree(d.ops[1], depth + 1)], key=str))
            if d.op in ('shl', 'lshr', 'ashr'):
                return (d.op, tree(d.ops[0], depth + 1), tree(d.ops[1], depth + 1))
            if d.op == 'load':
                at = P.atoms(d.ops[0])
                if any(a[0] == 'global' and a[1] == tab for a in at):
                    g = f.defs.get(d.ops[0])
                    idx = g.extra['idx'][-1].split()[-1] if g is not None and g.op == 'getelementptr' else None
                    return ('tab', tree(idx, depth + 1) if idx else ('?', 'index'))
                if any(a[0] == 'global' for a in at):
                    return ('othertab', str(sorted(at, key=str)))
                return ('byte', d.dst)
            return ('?', v)
        # loop-carried register
        phis = [i for i in f.all_insns() if i.op == 'phi' and not (i.ty or '').endswith('*') and F.loop_of(i.block) == i.block]
        cand = []
        for ph in phis:
            back = [v for v, pb in ph.extra['incoming'] if pb in F.loops[ph.block]]
            if len(back) == 1:
                t = tree(back[0])
                if t[0] == 'xor' and any(x[0] == 'tab' for x in t[1:]):
                    cand.append((ph, t))
        if len(cand) != 1:
            R.fail('crc/%s' % fn, '%s: no loop-carried value of the form (shifted crc) ^ table[...] found' % fn, key='T-CRC-BASE-STEP|%s|shape' % fn)
            continue
        ph, t = cand[0]
        me = ('crc', ph.dst)
        tabn = [x for x in t[1:] if x[0] == 'tab'][0]
        other = [x for x in t[1:] if x[0] != 'tab'][0]
        byte = None

        def has_byte(x):
            return isinstance(x, tuple) and (x[0] == 'byte' or any(has_byte(y) for y in x[1:] if isinstance(y, tuple)))

        def norm_idx(x):
            """index tree with `& 255` removed at the top"""
            if x[0] == 'and' and ('c', 255) in x[1:]:
                return [y for y in x[1:] if y != ('c', 255)][0], True
            return x, False
        problems = []
        idx, masked = norm_idx(tabn[1])
        if refl:
            if other != ('lshr', me, ('c', 8)):
                problems.append('the register part is %s, expected crc >> 8' % (other,))
            # (crc ^ byte) & 255, or (crc & 255) ^ byte, or trunc-to-8 forms (casts stripped: then the mask may be implicit in an i8 xor)
            ok_idx = False
            if idx[0] == 'xor':
                parts = list(idx[1:])
                b = [y for y in parts if y[0] == 'byte']
                c = [y for y in parts if y[0] != 'byte']
                if len(b) == 1 and len(c) == 1 and c[0] in (me, ('and', ('c', 255), me), ('and', me, ('c', 255))):
                    ok_idx = True
                    byte = b[0]
            if not ok_idx:
                problems.append('the table index is %s, expected (crc ^ byte) & 0xff' % (tabn[1],))
        else:
            if other != ('shl', me, ('c', 8)):
                problems.append('the register part is %s, expected crc << 8' % (other,))
            ok_idx = False
            if idx[0] == 'xor' and (masked or (ph.ty or '') == 'i%d' % W):       # a W-bit register shifted right by W-8 needs no mask
                parts = list(idx[1:])
                b = [y for y in parts if y[0] == 'byte']
                c = [y for y in parts if y[0] != 'byte']
                if len(b) == 1 and len(c) == 1 and c[0] == ('lshr', me, ('c', W - 8)):
                    ok_idx = True
                    byte = b[0]
            if not ok_idx:
                problems.append('the table index is %s, expected ((crc >> %d) ^ byte) & 0xff' % (tabn[1], W - 8))
        if byte is not None:
            ld = f.defs.get(byte[1])
            b_, ix = F.addr(ld.ops[0])
            L = F.loop_of(ph.block)
            cnt = F.count(L)
            want_ptr = scev.canon(scev.pvar('n%' + L))
            lenp = [n for t_, n in f.params if n.endswith('len')]
            ok_ptr = b_ in [n for t_, n in f.params if t_.rstrip().endswith('*')] and scev.canon(ix) == want_ptr
            if not ok_ptr:
                problems.append('the byte is read at %s + %s, expected the buffer argument + iteration number' % (b_, scev.pfmt(ix)))
            # the loop runs len times: the trip count is `len`, or (buf + len umax buf) - buf for the pointer-compare form
            cs = F.S['counts'].get('%' + L, '')
            bufn = b_ or ''
            lenn = lenp[0] if lenp else ''
            norm = re.sub(r'\(ptrtoint i8\* (%[\w.]+) to i64\)', r'\1', cs)
            norm = re.sub(r'\(sext i32 (%[\w.]+) to i64\)', r'\1', norm)
            ok_cnt = cs == lenn or norm in ('((-1 * %s) + ((%s + %s) umax %s))' % (bufn, lenn, bufn, bufn), '((-1 * %s) + ((%s + %s) umax %s))' % (bufn, bufn, lenn, bufn))
            if not ok_cnt:
                problems.append('the loop runs %s times, expected len' % cs)
        R.check(not problems, 'crc/%s' % fn, '%s: %s' % (fn, '; '.join(problems)), key='T-CRC-BASE-STEP|%s' % fn, sample='%s: %s step, W = %d' % (fn, 'reflected' if refl else 'MSB-first', W))


COUNTER_SCOPE = ('crc/crc_base.c', 'crc/crc64_base.c', 'igzip/adler32_base.c', 'mem/mem_zero_detect_base.c')


def check_counter_width(rep, mod):
    """The portable checksum routines take their length as a 64-bit count ("buffer length in bytes (64-bit data)").  A byte loop whose counter is a 32-bit int compared with
    that length stops being defined at 2^31 iterations: built without optimisation (this build) the counter wraps negative, is sign-extended to a huge unsigned value and the loop
    ends after 2^31 bytes - the CRC of a prefix is returned without any error."""
    import llir
    R = rep.rule('L-COUNTER-WIDTH', 'portable checksum / zero-detect routines (%s): no loop exit compares a sign- or zero-extended 32-bit induction variable (a phi stepped by a constant) with a bound '
                 'computed from a 64-bit parameter: the counter of a loop over the buffer is as wide as the length' % ', '.join(COUNTER_SCOPE), floor=10, unit='functions')
    n = 0
    for fn, f in sorted(mod.funcs.items()):
        if mod.file_of(fn) not in COUNTER_SCOPE:
            continue
        if not any(t == 'i64' for t, _ in f.params):
            continue
        n += 1
        R.instance()
        P = irrules.prov(mod, f)
        bad = None
        for b, t, c in irrules.cond_branches(mod, f):
            if c is None or c.op != 'icmp' or (c.ty or '') != 'i64':
                continue
            for x, y in ((c.ops[0], c.ops[1]), (c.ops[1], c.ops[0])):
                d = f.defs.get(x)
                if d is None or d.op not in ('sext', 'zext') or d.extra.get('fromty') != 'i32':
                    continue
                ph = f.defs.get(d.ops[0])
                if ph is None or ph.op != 'phi':
                    continue
                if not any((f.defs.get(v) is not None and f.defs[v].op == 'add' and ph.dst in f.defs[v].ops) for v, _ in ph.extra['incoming']):
                    continue
                if any(dd[0] == 'param' and f.params[dd[1]][0] == 'i64' for dd in P.deps(y)):
                    bad = c
        R.check(bad is None, mod.where(f, bad) if bad is not None else mod.where(f, None), '%s: the loop counter is a 32-bit int compared with the 64-bit length: for len > 2^31 the counter overflows (undefined; in this '
                'unoptimised build it wraps, sign-extends and ends the loop): the checksum of the first 2^31 bytes is returned as if it were the whole buffer' % fn, key='L-COUNTER-WIDTH|%s' % fn,
                sample='%s: loop counters as wide as the length' % fn)
    if n == 0:
        raise AnalysisBroken('L-COUNTER-WIDTH: no portable checksum routine with a 64-bit length found')


def main(tier):
    rep = Report('C04', tier, level='other')
    rep.undecided = UNDECIDED
    rep.explanation = ('Exact evaluation of the CRC constants of the current tree against GF(2)[x] arithmetic in the checker: all 12 lookup tables (256 entries each) against the '
                       'byte-CRC of the documented polynomial (anchored to published check values); every folding constant of every PCLMUL kernel, read from the assembled object, must be '
                       'congruent to x^e mod P for the exponent the fold geometry prescribes (fold distances 16..256 bytes), Barrett pairs by formula per representation; base-function/table pairing '
                       'and inversion conventions from the IR; Adler modulus and overflow bounds from the constants and accumulator widths. Necessary conditions for every input; the folding code '
                       'itself is not decided. The variants _01/_02/by4/by8 are never executed by the test suite on this host.')
    rep.trusted = ['nasm/clang constant evaluation', 'tools/gf2.py polynomial arithmetic', 'published CRC catalogue check values']
    units = asmdb.units('default')
    rep.analysed = dict(asm_units=[u for u in units if u.startswith('crc/')], c_units=['crc/crc_base.c', 'crc/crc64_base.c', 'igzip/adler32_base.c'])
    rep.attempt(check_tables, rep)
    rep.attempt(check_pairing, rep)
    rep.attempt(check_rk, rep, units)
    rep.attempt(check_iscsi_merge, rep, units)
    rep.attempt(check_adler, rep)
    try:
        import c04_store
        c04_store.check(rep, units)
    except ImportError:
        pass
    rep.attempt(check_inversion, rep)
    rep.attempt(check_base_step, rep)
    import crcfold
    rep.attempt(crcfold.check, rep, 400)
    import copypair
    rep.attempt(copypair.check, rep, 46)
    import bounds
    rep.attempt(bounds.check, rep, {'crc', 'crc_copy', 'adler'}, 'CRC', 30)
    import guardloop
    rep.attempt(guardloop.check, rep, 'CRC', r'^crc/|adler32', 5)
    import shfrows
    rep.attempt(shfrows.check, rep, {'crc', 'crc_copy'}, 380)
    import deadvdef
    rep.attempt(deadvdef.check, rep, 'CRC', r'^crc/', 3500)
    import foldconst
    rep.attempt(foldconst.check, rep, {'crc', 'crc_copy'}, 900)
    import crctwins
    rep.attempt(crctwins.check, rep)
    import tailbytes
    rep.attempt(tailbytes.check, rep)
    import llir
    rep.attempt(check_counter_width, rep, llir.library('default'))
    rep.attempt(bounds.check_len_width, rep, {'crc', 'crc_copy', 'adler'}, 'CRC', 31)
    import stridecover
    rep.attempt(stridecover.check, rep, 'CRC', {'crc', 'crc_copy', 'adler'}, 80)
    return rep.finish()
