"""C17 - matches never reach outside the announced window or preset dictionary.  Decided
(structural): every C match finder bounds each hash-derived distance by dist_mask before it
is encoded; set_dist_mask => dist_mask <= min(2^hist_bits, IGZIP_HIST_SIZE) - 1 for every
hist_bits (interval analysis); zlib CINFO >= hist_bits; dictionary calls return the
invalid-state code before any store; the dictionary length clamp dominates the history copy;
asm match finders: every hash-derived distance is masked / compared with dist_mask (taint)."""
import re
from common import Report, AnalysisBroken
import llir, irrules, mirror, intervals, asmdb, kernels
import c19

UNDECIDED = 'the distances in emitted streams as run-time values, the dictionary round trip, equality of processed-dictionary and direct dictionary streams'
CONFIGS = ['default', 'hist8k', 'longhuff']
FINDERS = {'isal_deflate_body_base': 'get_dist_code', 'isal_deflate_finish_base': 'get_dist_code',
           'isal_deflate_icf_body_hash_hist_base': 'get_dist_icf_code', 'isal_deflate_icf_finish_hash_hist_base': 'get_dist_icf_code',
           'isal_deflate_icf_finish_hash_map_base': 'get_dist_icf_code', 'gen_icf_map_h1_base': 'get_dist_icf_code'}


def base_name(n):
    return re.sub(r'\.\d+$', '', n)


def strip_casts(f, v):
    while True:
        d = f.defs.get(v)
        if d is not None and d.op in ('zext', 'sext', 'trunc', 'freeze', 'bitcast'):
            v = d.ops[0]
        else:
            return v


def is_mask(P, f, v, maskcell):
    return P.deps(v) == {('mem', maskcell)}


def minus_one_of(f, v):
    """if v == X - 1 return the cast-stripped X"""
    d = f.defs.get(strip_casts(f, v))
    if d is None:
        return None
    if d.op == 'sub' and d.ops[1] == '1':
        return strip_casts(f, d.ops[0])
    if d.op == 'add' and d.ops[1] in ('-1', '4294967295', '18446744073709551615', '65535'):
        return strip_casts(f, d.ops[0])
    return None


def check_distguard_c(rep, mod):
    R = rep.rule('R-DISTGUARD-C', 'in every C match finder, each distance passed to get_dist_code / get_dist_icf_code is dominated by "dist - 1 < dist_mask" or is computed as ((x - 1) & dist_mask) + 1',
                 floor=6, unit='match finders')
    off = c19.field_offsets('struct isal_zstream', ['internal_state.dist_mask'])['internal_state.dist_mask']
    for fn, callee in sorted(FINDERS.items()):
        f = mod.funcs.get(fn)
        if f is None:
            raise AnalysisBroken('match finder %s not found' % fn)
        R.instance()
        P = irrules.prov(mod, f)
        cell = ('param', 0, off)
        sites = [i for i in f.all_insns() if i.op == 'call' and base_name(i.callee) == callee]
        if not sites:
            R.fail(mod.where(f, None), 'no call of %s found' % callee, key='R-DISTGUARD-C|%s|sites' % fn)
            continue
        for cs in sites:
            argi = 1 if callee == 'get_dist_code' else 0
            D0 = strip_casts(f, cs.args[argi][1])
            cands = [D0]
            # a distance kept in an address-taken local: every value stored to that local (over-approximation of the reaching stores)
            dd = f.defs.get(D0)
            if dd is not None and dd.op == 'load':
                at = P.atoms(dd.ops[0])
                if len(at) == 1 and list(at)[0][0] == 'alloca':
                    rs = irrules.reaching_stores(mod, f, at, dd)
                    cands = [strip_casts(f, j.ops[0]) if (j is not None and j.op == 'store') else '?' for j in rs]
            oks = []
            how = ''
            for D in cands:
                ok1 = False
                # idiom (b): D = ((x-1) & M) + 1
                d = f.defs.get(D)
                if d is not None and d.op == 'add' and d.ops[1] == '1':
                    a = f.defs.get(strip_casts(f, d.ops[0]))
                    if a is not None and a.op == 'and':
                        for x, m_ in ((a.ops[0], a.ops[1]), (a.ops[1], a.ops[0])):
                            if is_mask(P, f, m_, cell) and minus_one_of(f, x) is not None:
                                ok1 = True
                                how = 'masked: ((x-1) & dist_mask) + 1'
                # idiom (a): dominated by the in-range edge of a comparison (D-1) < M
                if not ok1:
                    for b, br, c in irrules.cond_branches(mod, f):
                        if c is None or c.op != 'icmp':
                            continue
                        pred = c.extra['pred']
                        lhs, rhs = c.ops
                        tt, tf = br.extra['targets']
                        if pred == 'ult':
                            small, big, inr = lhs, rhs, tt
                        elif pred == 'ugt':
                            small, big, inr = rhs, lhs, tt
                        elif pred == 'uge':
                            small, big, inr = lhs, rhs, tf
                        elif pred == 'ule':
                            small, big, inr = rhs, lhs, tf
                        else:
                            continue
                        if not is_mask(P, f, big, cell):
                            continue
                        if minus_one_of(f, small) != D:
                            continue
                        if f.blocks[inr].preds == [b] and f.dominates(inr, cs.block):
                            ok1 = True
                            how = 'guarded: dist - 1 < dist_mask'
                oks.append(ok1)
            ok = bool(oks) and all(oks)
            R.check(ok, mod.where(f, cs), 'distance passed to %s is neither guarded by "dist - 1 < dist_mask" nor masked with dist_mask' % callee, key='R-DISTGUARD-C|%s' % fn,
                    sample='%s: %s' % (fn, how))


def check_masked_nohist(rep, mod):
    """a finder that only MASKS the distance (no comparison with the history actually available) turns the distance 0 of a hash entry that points at the current position - every entry does
    right after the history was reset - into 2^w; it is only sound behind the one-time no-history guard that emits the first byte as a literal"""
    R = rep.rule('R-MASKED-NOHIST', 'every C match finder whose distances are only masked with dist_mask (idiom ((x-1) & dist_mask) + 1, no range check against the history present) branches on '
                 'has_hist == IGZIP_NO_HIST, and the edge taken when they are equal leads to the store has_hist = IGZIP_HIST: right after a history reset (stream start, full flush, stateless call) the first '
                 'position is not looked up, so no distance of 2^w reaches before the reset point', floor=1, unit='mask-only finders')
    off = c19.field_offsets('struct isal_zstream', ['internal_state.dist_mask', 'internal_state.has_hist'])
    K, drop = mirror.c_values('default', ['igzip_lib.h'], [('NO', 'IGZIP_NO_HIST'), ('HIST', 'IGZIP_HIST')], 'c17_hist')
    if drop:
        raise AnalysisBroken('IGZIP_NO_HIST / IGZIP_HIST not found')
    cell = ('param', 0, off['internal_state.dist_mask'])
    for fn, callee in sorted(FINDERS.items()):
        f = mod.funcs.get(fn)
        if f is None:
            raise AnalysisBroken('match finder %s not found' % fn)
        P = irrules.prov(mod, f)
        masked = False
        for cs in [i for i in f.all_insns() if i.op == 'call' and base_name(i.callee) == callee]:
            D0 = strip_casts(f, cs.args[1 if callee == 'get_dist_code' else 0][1])
            cands = [D0]
            dd = f.defs.get(D0)
            if dd is not None and dd.op == 'load':
                at = P.atoms(dd.ops[0])
                if len(at) == 1 and list(at)[0][0] == 'alloca':
                    cands = [strip_casts(f, j.ops[0]) for j in irrules.reaching_stores(mod, f, at, dd) if j is not None and j.op == 'store']
            for D in cands:
                d = f.defs.get(D)
                if d is not None and d.op == 'add' and d.ops[1] == '1':
                    a = f.defs.get(strip_casts(f, d.ops[0]))
                    if a is not None and a.op == 'and' and any(is_mask(P, f, m_, cell) for m_ in a.ops):
                        masked = True
        if not masked:
            continue
        R.instance()
        hh = ('param', 0, off['internal_state.has_hist'])
        ok, why = False, 'has_hist is never compared with IGZIP_NO_HIST'
        for b, br, c in irrules.cond_branches(mod, f):
            if c is None or c.op != 'icmp' or c.extra['pred'] not in ('eq', 'ne'):
                continue
            lhs, rhs = strip_casts(f, c.ops[0]), c.ops[1]
            dl = f.defs.get(lhs)
            if dl is None or dl.op != 'load' or P.atoms(dl.ops[0]) != {hh} or not re.match(r'^\d+$', rhs) or int(rhs) != K['NO']:
                continue
            tt, tf = br.extra['targets']
            eq_t = tt if c.extra['pred'] == 'eq' else tf
            sets = [i for i in f.all_insns() if i.op == 'store' and P.atoms(i.ops[1]) == {hh} and re.match(r'^\d+$', i.ops[0]) and int(i.ops[0]) == K['HIST']]
            if any(f.dominates(eq_t, s_.block) for s_ in sets):
                ok = True
            else:
                why = 'the branch on has_hist == IGZIP_NO_HIST does not lead to the store has_hist = IGZIP_HIST'
        R.check(ok, mod.where(f, None), '%s only masks its distances, but %s: after a history reset the first hash entry equals the current position, distance 0 is folded to dist_mask + 1 and the match reaches before the reset point' % (fn, why),
                key='R-MASKED-NOHIST|%s' % fn, sample='%s: first position after a reset is a literal (has_hist == IGZIP_NO_HIST guard)' % fn)


def check_hashmask_field(rep, mod):
    """which part of a hash table is valid is decided per segment: set_hash_mask may shrink state->hash_mask and reset_match_history then initialises only the buckets below it"""
    R = rep.rule('R-HASHMASK-FIELD', 'in the portable match finders every index into a table of 16-bit hash buckets that is formed by AND-ing a hash value with a mask takes that mask from '
                 'state->hash_mask (data-flow: the mask operand depends on that field only), never from a constant or another field: buckets above the mask of the current segment, which no reset initialised, are not '
                 'looked up', floor=8, unit='masked hash indices')
    off = c19.field_offsets('struct isal_zstream', ['internal_state.hash_mask'])['internal_state.hash_mask']
    for fn in sorted(FINDERS):
        f = mod.funcs.get(fn)
        if f is None:
            continue
        P = irrules.prov(mod, f)
        for g in [i for i in f.all_insns() if i.op == 'getelementptr' and (i.ty or '') == 'i16']:
            idx = [x.split(' ')[-1] for x in (g.extra or {}).get('idx', [])]
            for ix in idx:
                if not ix.startswith('%'):
                    continue
                d = f.defs.get(strip_casts(f, ix))
                if d is None or d.op != 'and':
                    continue
                R.instance()
                ok = False
                for m_ in d.ops:
                    deps = P.deps(m_)
                    if deps and all(x == ('mem', ('param', 0, off)) for x in deps):
                        ok = True
                R.check(ok, mod.where(f, g), '%s indexes a hash table with a value masked by %s, which does not come from state->hash_mask: when the segment runs with a smaller mask the buckets above it hold whatever '
                        'the context contained before' % (fn, ' / '.join(d.ops)), key='R-HASHMASK-FIELD|%s|%s' % (fn, g.line or 0), sample='%s: bucket index & state->hash_mask' % fn)


def check_hist_after_space(rep):
    """the asm bodies only mask distances; they rely on the first position after a history reset being emitted as a literal.  has_hist = IGZIP_HIST records that this has happened"""
    import provenance
    from provenance import base_tag as base_tag_
    R = rep.rule('R-HIST-AFTER-SPACE', 'asm level-0 body kernels (isal_deflate_body_0x): every path from the store has_hist = IGZIP_HIST to the return passes a store into the output '
                 '(token) buffer: the flag is set on the has-space side of the output check, never on a path that gives up before the first byte was emitted - otherwise the '
                 'next call skips the history reset, looks the first position up and masks distance 0 to 2^w', floor=3, unit='IGZIP_HIST stores')
    res, _ = provenance.analyse('default')
    off = c19.field_offsets('struct isal_zstream', ['internal_state.has_hist'])['internal_state.has_hist']
    K, drop = mirror.c_values('default', ['igzip_lib.h'], [('HIST', 'IGZIP_HIST')], 'c17_hist2')
    if drop:
        raise AnalysisBroken('IGZIP_HIST not found')
    for sym, info in sorted(res.items()):
        if not re.match(r'^isal_deflate_body_0\d$', sym):
            continue
        u, f = info['unit'], info['func']
        n = 0
        for a in info['accesses']:
            i = a.insn
            if not (a.kind == 'store' and a.addr[0] == 'P' and a.addr[1] == 'STREAM' and a.addr[2] == (off, 0) and len(i.ops) > 1 and re.match(r'^(0x[0-9a-f]+|\d+)$', i.ops[1]) and int(i.ops[1], 0) == K['HIST']):
                continue
            n += 1
            R.instance()
            emit = {x.insn.addr for x in info['accesses'] if x.kind in ('store', 'rmw') and x.addr[0] == 'P' and base_tag_(x.addr) == 'OUT'}
            if not emit:
                raise AnalysisBroken('%s: no store into the output buffer recognised' % sym)
            seen, work, hit = set(), list(u.succ(f, i.addr)), None
            while work and hit is None:
                x = work.pop()
                if x in seen or x in emit:
                    continue
                seen.add(x)
                if u.insns[x].mn == 'ret':
                    hit = u.insns[x]
                    break
                work += u.succ(f, x)
            R.check(hit is None, '%s: %s' % (u.name, u.where(i, f)), '%s sets has_hist = IGZIP_HIST here and can then return without having stored anything into the output buffer (an exit taken after the flag '
                    'was set): the next call neither resets the history nor treats its first byte as a literal' % sym, key='R-HIST-AFTER-SPACE|%s' % sym, sample='%s: the flag is set behind the output check' % sym)
        if n == 0:
            raise AnalysisBroken('%s: no store of IGZIP_HIST to has_hist found' % sym)


def check_mask_range(rep, config):
    R = rep.rule('R-DISTMASK-RANGE[%s]' % config, 'interval analysis of set_dist_mask over every hist_bits: afterwards hist_bits in [1,15] and dist_mask <= min(2^15, IGZIP_HIST_SIZE) - 1; _zlib_header_in_buffer advertises CINFO >= hist_bits - 8',
                 floor=1, unit='functions')
    mod = llir.library(config)
    f = mod.funcs.get('set_dist_mask')
    if f is None:
        raise AnalysisBroken('set_dist_mask not found [%s]' % config)
    R.instance()
    off = c19.field_offsets('struct isal_zstream', ['hist_bits', 'internal_state.dist_mask'])
    v, _ = mirror.c_values(config, ['igzip_lib.h'], [('HIST', 'IGZIP_HIST_SIZE'), ('MAXBITS', 'ISAL_DEF_MAX_HIST_BITS'), ('hbsz', 'sizeof(((struct isal_zstream*)0)->hist_bits)')], 'c17_' + config)
    hb = ('param', 0, off['hist_bits'])
    dm = ('param', 0, off['internal_state.dist_mask'])
    I = intervals.Interp(mod, f, {hb: (0, (1 << (8 * v['hbsz'])) - 1)})
    out = I.run()
    r_hb = out.get(hb)
    r_dm = out.get(dm)
    R.check(r_hb is not None and r_hb[0] >= 1 and r_hb[1] <= v['MAXBITS'], 'igzip/igzip.c:set_dist_mask [%s]' % config, 'hist_bits after the call is in %s, expected within [1,%d]' % (r_hb, v['MAXBITS']),
            key='R-DISTMASK-RANGE|%s|hist_bits' % config, sample='[%s] hist_bits -> %s' % (config, r_hb))
    lim = min(1 << v['MAXBITS'], v['HIST']) - 1
    R.check(r_dm is not None and r_dm[1] <= lim, 'igzip/igzip.c:set_dist_mask [%s]' % config, 'dist_mask after the call is in %s, may exceed min(2^%d, IGZIP_HIST_SIZE) - 1 = %d' % (r_dm, v['MAXBITS'], lim),
            key='R-DISTMASK-RANGE|%s|dist_mask' % config, sample='[%s] dist_mask -> %s <= %d' % (config, r_dm, lim))
    # zlib CINFO
    g = mod.funcs.get('_zlib_header_in_buffer')
    if g is None:
        raise AnalysisBroken('_zlib_header_in_buffer not found')
    R.instance()
    worst = None
    for h in range(0, v['MAXBITS'] + 1):
        # per-value interval run (the function is loop free; each run is an abstract evaluation with a singleton interval)
        J = intervals.Interp(mod, g, {('param', 0, off['hist_bits']): (h, h)})
        J.run()
        # the cmf byte: value stored to buffer[0]
        cmf = None
        for i in g.all_insns():
            if i.op == 'store':
                at = irrules.prov(mod, g).atoms(i.ops[1])
                if at == {('param', 1, 0)}:
                    cmf = J.values.get(i.ops[0]) if not re.match(r'^\d+$', i.ops[0]) else (int(i.ops[0]), int(i.ops[0]))
        if cmf is None or cmf[0] != cmf[1]:
            R.fail('igzip/igzip.c:_zlib_header_in_buffer [%s]' % config, 'cannot determine the CMF byte for hist_bits=%d (abstract value %s)' % (h, cmf), key='R-DISTMASK-RANGE|%s|cmf' % config)
            break
        cinfo = cmf[0] >> 4
        eff = v['MAXBITS'] if h == 0 else h
        if not (cinfo + 8 >= eff and (cmf[0] & 15) == 8 and cinfo <= 7):
            worst = (h, cmf[0])
    else:
        R.check(worst is None, 'igzip/igzip.c:_zlib_header_in_buffer [%s]' % config, 'for hist_bits=%s the CMF byte %#x advertises a window smaller than 2^hist_bits (or an invalid CM/CINFO)' % (worst or (0, 0)),
                key='R-DISTMASK-RANGE|%s|cinfo' % config, sample='[%s] CINFO+8 >= hist_bits for hist_bits 0..%d' % (config, v['MAXBITS']))


def check_dict(rep, mod, S):
    R = rep.rule('R-DICT-GUARD', 'dictionary calls made in a wrong state return the invalid-state code on a path with no store through stream/state/dict and no writing call', floor=3, unit='functions')
    RC = rep.rule('R-DICT-CLAMP', 'the copy of a dictionary into the internal history is dominated by the clamp of its length to IGZIP_HIST_SIZE (or by the rejection of an oversized processed dictionary)', floor=3, unit='functions')
    codes, _ = mirror.c_values('default', ['igzip_lib.h'], [('STATE', 'ISAL_INVALID_STATE'), ('HIST', 'IGZIP_HIST_SIZE')], 'c17_codes')
    for fn in ('isal_deflate_set_dict', 'isal_deflate_reset_dict', 'isal_inflate_set_dict'):
        f = mod.funcs.get(fn)
        if f is None:
            raise AnalysisBroken(fn + ' not found')
        R.instance()
        RC.instance()
        ret = [i for i in f.all_insns() if i.op == 'ret'][0]
        d = f.defs.get(ret.ops[0])
        if d is None or d.op != 'phi':
            raise AnalysisBroken('%s: return phi expected' % fn)
        err = [pb for v, pb in d.extra['incoming'] if v == str(codes['STATE'])]
        R.check(len(err) >= 1, mod.where(f, ret), 'no return of ISAL_INVALID_STATE', key='R-DICT-GUARD|%s|ret' % fn)
        eff = irrules.effects(mod, f, S)
        for eb in err:
            back = set()
            work = [eb]
            while work:
                b = work.pop()
                if b in back:
                    continue
                back.add(b)
                work += f.blocks[b].preds
            bad = [(i, a) for i, atoms in eff if i.block in back for a in atoms if not irrules.is_local(a)]
            R.check(not bad, mod.where(f, bad[0][0] if bad else ret), 'a write (%s) lies on a path that ends in the ISAL_INVALID_STATE return' % (str(bad[0][1]) if bad else ''), key='R-DICT-GUARD|%s|effect' % fn,
                    sample='%s: invalid-state return has no side effect' % fn)
        # clamp: every memcpy whose length depends on the dict-length parameter/field is dominated by a comparison of that length with IGZIP_HIST_SIZE
        P = irrules.prov(mod, f)
        copies = [i for i in f.all_insns() if i.op == 'call' and i.callee.startswith('llvm.memcpy')]
        if not copies:
            RC.fail(mod.where(f, None), 'no history copy (memcpy) found', key='R-DICT-CLAMP|%s|copy' % fn)
            continue
        guards = []
        for b, br, c in irrules.cond_branches(mod, f):
            if c is not None and c.op == 'icmp' and c.extra['pred'] in ('ugt', 'uge', 'ult', 'ule', 'sgt', 'sge', 'slt', 'sle'):
                consts = [o for o in c.ops if re.match(r'^\d+$', o)]
                if consts and int(consts[0]) in (codes['HIST'], codes['HIST'] - 1, codes['HIST'] + 1):
                    guards.append(b)
        for cp in copies:
            ok = any(f.dominates(g, cp.block) for g in guards)
            RC.check(ok, mod.where(f, cp), 'history copy is not dominated by a comparison of the dictionary length with IGZIP_HIST_SIZE (%d)' % codes['HIST'], key='R-DICT-CLAMP|%s' % fn,
                     sample='%s: memcpy after length vs %d test' % (fn, codes['HIST']))


def check_dict_guard_siblings(rep, mod):
    """a dictionary may only be installed between blocks, with nothing buffered: isal_deflate_set_dict and isal_deflate_reset_dict document the same precondition"""
    R = rep.rule('R-DICT-GUARD-SIBLINGS', 'isal_deflate_set_dict and isal_deflate_reset_dict refuse the call (ISAL_INVALID_STATE) on the same conditions on the stream: the set of internal-state fields whose loaded values '
                 'decide the branches that lead to that return is the same in both (state, b_bytes_processed, b_bytes_valid): neither installs a dictionary over input that is buffered but not yet compressed',
                 floor=1, unit='guard pairs')
    codes, _ = mirror.c_values('default', ['igzip_lib.h'], [('STATE', 'ISAL_INVALID_STATE')], 'c17_codes2')
    import fieldinit
    fields = sorted(fieldinit.struct_fields('isal_zstream'), key=lambda x: x[1]) if hasattr(fieldinit, 'struct_fields') else []
    off = c19.field_offsets('struct isal_zstream', ['internal_state.state', 'internal_state.b_bytes_processed', 'internal_state.b_bytes_valid', 'internal_state.has_hist', 'level', 'internal_state.block_end',
                                                    'internal_state.block_next', 'total_in', 'avail_in'])
    names = {v: k for k, v in off.items()}
    got = {}
    for fn in ('isal_deflate_set_dict', 'isal_deflate_reset_dict'):
        f = mod.funcs.get(fn)
        if f is None:
            raise AnalysisBroken(fn + ' not found')
        P = irrules.prov(mod, f)
        ret = [i for i in f.all_insns() if i.op == 'ret'][0]
        d = f.defs.get(ret.ops[0])
        if d is None or d.op != 'phi':
            raise AnalysisBroken('%s: return phi expected' % fn)
        err = [pb for v, pb in d.extra['incoming'] if v == str(codes['STATE'])]
        if not err:
            raise AnalysisBroken('%s never returns ISAL_INVALID_STATE' % fn)
        # branches with an edge into an error block (or into a block that only leads there)
        used = set()
        errset = set(err)
        for b, br, c in irrules.cond_branches(mod, f):
            if c is None:
                continue
            if set(br.extra['targets']) & errset:
                for dep in P.deps(br.extra['cond']):
                    if dep[0] == 'mem' and dep[1][0] == 'param' and dep[1][1] == 0 and dep[1][2] in names:
                        used.add(names[dep[1][2]])
        got[fn] = used
    R.instance()
    a, b = got['isal_deflate_set_dict'], got['isal_deflate_reset_dict']
    core = {'internal_state.state', 'internal_state.b_bytes_processed', 'internal_state.b_bytes_valid'}
    R.check(a & core == b & core and len(a & core) == 3, mod.where(mod.funcs['isal_deflate_reset_dict'], None), 'the wrong-state guards differ: isal_deflate_set_dict tests %s, isal_deflate_reset_dict tests %s (expected both: '
            'state, b_bytes_processed, b_bytes_valid): one of them accepts a call while input is buffered and silently drops it' % (sorted(a & core), sorted(b & core)), key='R-DICT-GUARD-SIBLINGS',
            sample='both test state, b_bytes_processed, b_bytes_valid')


def check_dict_tail(rep, mod):
    """only the last window-size bytes of a longer dictionary matter: all three functions that copy a caller dictionary clamp its length to
    IGZIP_HIST_SIZE; the clamp keeps the LAST bytes only if the source pointer is advanced together with it (siblings must agree)."""
    R = rep.rule('R-DICT-TAIL', 'isal_deflate_set_dict / isal_inflate_set_dict / isal_deflate_process_dict: the source of the history copy may be the dictionary pointer advanced by a length-dependent amount '
                 '(its value set contains both the parameter and the parameter plus a variable offset), and every later use of the dictionary data in the same function (hashing) takes the same pointer value; '
                 'a copy that can only start at the first byte keeps the head, not the tail, of a long dictionary', floor=3, unit='functions')
    for fn, pidx in (('isal_deflate_set_dict', 1), ('isal_inflate_set_dict', 1), ('isal_deflate_process_dict', 2)):
        f = mod.funcs.get(fn)
        if f is None:
            raise AnalysisBroken(fn + ' not found')
        R.instance()
        P = irrules.prov(mod, f)
        copies = [i for i in f.all_insns() if i.op == 'call' and i.callee.startswith('llvm.memcpy') and any(a[0] == 'param' and a[1] == pidx for a in P.atoms(i.args[1][1]))]
        if not copies:
            raise AnalysisBroken('%s: no copy from the dictionary parameter found' % fn)
        for cp in copies:
            at = P.atoms(cp.args[1][1])
            R.check(('param', pidx, None) in at and ('param', pidx, 0) in at, mod.where(f, cp), '%s: the history copy can only read from %s; for a dictionary longer than IGZIP_HIST_SIZE the pointer must be advanced to its last IGZIP_HIST_SIZE bytes '
                    '(as the sibling functions do)' % (fn, sorted(at, key=str)), key='R-DICT-TAIL|%s|copy' % fn, sample='%s: source is dict or dict + (len - HIST)' % fn)
        # the advance must be computed from the caller's dictionary length (dict + dict_len - HIST), not from a value that was already clamped
        lens = [n for n, (ty, nm) in enumerate(f.params) if nm.endswith('dict_len')]
        if len(lens) != 1:
            raise AnalysisBroken('%s: no dict_len parameter' % fn)
        for cp in copies:
            seen, work, var_idx_deps = set(), [cp.args[1][1]], []
            while work:
                x = work.pop()
                if x in seen:
                    continue
                seen.add(x)
                d = f.defs.get(x)
                if d is None:
                    continue
                if d.op == 'getelementptr':
                    for ix in d.extra['idx']:
                        v = ix.split()[-1]
                        if not re.match(r'^-?\d+$', v):
                            var_idx_deps.append(P.deps(v))
                    work.append(d.ops[0])
                elif d.op == 'phi':
                    work += [a for a, _ in d.extra['incoming']]
                elif d.op in ('bitcast', 'select'):
                    work += [o for o in d.ops if o.startswith('%')]
            R.check(any(('param', lens[0], 0) in deps for deps in var_idx_deps), mod.where(f, cp), '%s: the amount by which the dictionary pointer is advanced does not depend on the dict_len argument (it is computed after the '
                    'length was clamped, i.e. it is always 0): the head instead of the tail of a long dictionary is kept' % fn, key='R-DICT-TAIL|%s|advance' % fn)
        src = irrules._strip(f, copies[0].args[1][1])
        for i in f.all_insns():
            if i.op == 'call' and i.callee in mod.funcs and not i.callee.startswith('llvm.'):
                for _, v in i.args:
                    at = P.atoms(v)
                    if any(a[0] == 'param' and a[1] == pidx for a in at):
                        R.check(irrules._strip(f, v) == src, mod.where(f, i), '%s passes a different dictionary pointer to %s than the one the history was copied from' % (fn, i.callee), key='R-DICT-TAIL|%s|%s' % (fn, i.callee))


def check_mask_fresh(rep, mod, S):
    """must-pass-through with one path-sensitive variable (has_hist): the caller may change hist_bits between streams,
    so in every call that starts matching from a 'stream start' state the window masks must be recomputed from the
    current hist_bits before the first body call - the zlib header written by the same call advertises the current hist_bits."""
    R = rep.rule('R-DISTMASK-FRESH', 'isal_deflate: for every stream-start value of state->has_hist (every constant stored to has_hist anywhere in the library except IGZIP_HIST, the value that marks an '
                 'established window), no path from entry under has_hist == value reaches the compression body (isal_deflate_int) without first calling set_dist_mask and set_hash_mask; '
                 'isal_deflate_stateless: no path at all reaches isal_deflate_int_stateless without them', floor=4, unit='(function, state) pairs')
    hv, _ = mirror.c_values('default', ['igzip_lib.h'], [('IGZIP_HIST', 'IGZIP_HIST')], 'c17_hist')
    off = c19.field_offsets('struct isal_zstream', ['internal_state.has_hist'])['internal_state.has_hist']
    soff = c19.field_offsets('struct isal_zstate', ['has_hist'])['has_hist']
    # the state values: constants stored to the field anywhere
    values = {}
    for fn, f in mod.funcs.items():
        P = irrules.prov(mod, f)
        for i in f.all_insns():
            if i.op == 'store' and re.match(r'^\d+$', i.ops[0]):
                at = P.atoms(i.ops[1])
                if any(a[0] == 'param' and a[2] in (off, soff) for a in at) and len(at) == 1:
                    a = list(at)[0]
                    pty = f.params[a[1]][0] if a[1] < len(f.params) else ''
                    want = off if 'isal_zstream' in pty else soff if 'isal_zstate' in pty else None
                    if want is not None and a[2] == want:
                        values.setdefault(int(i.ops[0]), []).append(mod.where(f, i))
    if len(values) < 3 or hv['IGZIP_HIST'] not in values:
        raise AnalysisBroken('R-DISTMASK-FRESH: expected stores of at least three has_hist states incl. IGZIP_HIST, found %s' % sorted(values))
    starts = sorted(v for v in values if v != hv['IGZIP_HIST'])

    def is_hist_load(f, P, v):
        v = irrules._strip(f, v)
        d = f.defs.get(v)
        return d is not None and d.op == 'load' and P.atoms(d.ops[0]) == {('param', 0, off)}

    def explore(f, body, need, assume):
        """-> list of (body call insn, missing callee set) reachable from entry under has_hist == assume (None: no assumption)"""
        P = irrules.prov(mod, f)
        bad = []
        seen = set()
        work = [(f.order[0], frozenset(), assume is not None)]
        while work:
            b, done, known = work.pop()
            if (b, done, known) in seen:
                continue
            seen.add((b, done, known))
            blk = f.blocks[b]
            for i in blk.insns:
                if i.op == 'call':
                    c = base(i.callee)
                    if c in need:
                        done = done | {c}
                    elif c in body:
                        if not need <= done:
                            bad.append((i, need - done))
                    elif known and not i.callee.startswith('llvm.'):
                        w = S.W.get(i.callee)
                        if w is None or any(a == llir.UNK or (a[0] == 'param' and a[2] in (off, soff, None)) for a in w):
                            known = False      # the callee may change has_hist: stop using the assumption
                elif i.op == 'store' and known and any(a[0] == 'param' and a[2] in (off, None) for a in P.atoms(i.ops[1])):
                    known = False
            if need <= done:
                continue
            t = blk.insns[-1]
            succs = list(blk.succs)
            if known and t.op == 'br' and t.extra.get('cond'):
                c = f.defs.get(t.extra['cond'])
                if c is not None and c.op == 'icmp' and c.extra['pred'] in ('eq', 'ne'):
                    for x, k in ((c.ops[0], c.ops[1]), (c.ops[1], c.ops[0])):
                        if re.match(r'^\d+$', k) and is_hist_load(f, P, x):
                            truth = (assume == int(k)) == (c.extra['pred'] == 'eq')
                            succs = [t.extra['targets'][0 if truth else 1]]
            elif known and t.op == 'switch' and is_hist_load(f, P, t.ops[0]):
                cases = dict(t.extra['cases'])
                succs = [cases.get(assume, cases.get(str(assume), t.extra['default']))]
            for n in succs:
                work.append((n, done, known))
        return bad
    need = {'set_dist_mask', 'set_hash_mask'}
    f = mod.funcs.get('isal_deflate')
    g = mod.funcs.get('isal_deflate_stateless')
    if f is None or g is None:
        raise AnalysisBroken('isal_deflate / isal_deflate_stateless not found')
    for fn, fobj, body, assumes in (('isal_deflate', f, {'isal_deflate_int'}, starts), ('isal_deflate_stateless', g, {'isal_deflate_int_stateless'}, [None])):
        if not any(i.op == 'call' and base(i.callee) in body for i in fobj.all_insns()):
            raise AnalysisBroken('%s does not call %s' % (fn, sorted(body)))
        for a in assumes:
            R.instance()
            bad = explore(fobj, body, need, a)
            R.check(not bad, mod.where(fobj, bad[0][0]) if bad else fn,
                    '%s: with has_hist == %s on entry (state stored at %s) the call of %s is reachable without a preceding call of %s: the window masks keep whatever an earlier hist_bits produced while the header advertises the current one'
                    % (fn, a, values.get(a, ['-'])[0] if a is not None else '-', sorted(body)[0], sorted(bad[0][1]) if bad else ''),
                    key='R-DISTMASK-FRESH|%s|%s' % (fn, a), sample='%s: has_hist=%s -> masks recomputed before the body' % (fn, a))


def base(n):
    return re.sub(r'\.\d+$', '', n)


def check_hash_clear(rep, mod):
    """a hash bucket that was not (re)initialised is read as a position: the routines that prime the hash tables for a dictionary, and the one that
    saves / restores them, must cover the WHOLE table of the level they serve."""
    R = rep.rule('R-HASH-CLEAR', 'isal_deflate_hash, isal_deflate_process_dict, isal_deflate_reset_dict: every constant-length memset / memcpy whose destination is a hash table array covers the whole array '
                 '(length = declared element count x element size, read from the IR type of the destination), every fill helper called with a table gets its element count, and every per-level (table, count) pair that bounds a loop agrees: no bucket keeps a position left over from an earlier stream', floor=9, unit='fills')
    for f, i, n, es, ln in irrules.array_fills(mod):
        if f.name not in ('isal_deflate_hash', 'isal_deflate_process_dict', 'isal_deflate_reset_dict'):
            continue
        R.instance()
        R.check(ln == n * es, mod.where(f, i), '%s: %s of %d bytes into a hash table of %d bytes (%d buckets): the other buckets keep positions from whatever used the level buffer before, which the match finder '
                'treats as candidates inside the window' % (f.name, i.callee.split('.')[1] if '.' in i.callee else i.callee, ln, n * es, n), key='R-HASH-CLEAR|%s|%d' % (f.name, i.line or 0),
                sample='%s: %d buckets fully covered' % (f.name, n))

    def array_elems(f, v):
        """element count of the array whose first element v points to (arraydecay of [N x T]), or None"""
        for _ in range(4):
            d = f.defs.get(v)
            if d is None:
                return None
            if d.op == 'bitcast':
                v = d.ops[0]
                continue
            if d.op == 'getelementptr':
                m = re.match(r'^\[(\d+) x (.+)\]$', d.extra.get('basety', '').strip())
                idx = [x.split()[-1] for x in d.extra.get('idx', [])]
                if m and idx == ['0', '0']:
                    return int(m.group(1))
            return None
        return None
    # element-wise fills: (a) a helper "for (i = 0; i < n; i++) table[i] = v" called with a table and a constant count, (b) a loop over a table / count pair selected per level
    for fn in ('isal_deflate_hash', 'isal_deflate_process_dict', 'isal_deflate_reset_dict'):
        f = mod.funcs.get(fn)
        if f is None:
            raise AnalysisBroken(fn + ' not found')
        for i in f.all_insns():
            if i.op == 'call' and i.callee in mod.funcs and len(i.ops) >= 2 and re.match(r'^\d+$', i.ops[1]):
                h = mod.funcs[i.callee]
                if not (h.params and h.params[0][0].endswith('*') and any(j.op == 'store' for j in h.all_insns())):
                    continue
                # the helper's loop bound must be its second parameter
                bound_ok = any(c is not None and c.op == 'icmp' and c.extra['pred'] in ('ult', 'slt') and c.ops[1] == h.params[1][1] for _, _, c in irrules.cond_branches(mod, h))
                n = array_elems(f, i.ops[0])
                if n is None or not bound_ok:
                    continue
                R.instance()
                R.check(int(i.ops[1]) == n, mod.where(f, i), '%s: %s sets %s entries of a hash table that has %d: the other buckets keep positions from whatever used the level buffer before' % (fn, i.callee, i.ops[1], n),
                        key='R-HASH-CLEAR|%s|%s|%s' % (fn, i.callee, i.block), sample='%s: %s covers all %d buckets' % (fn, i.callee, n))
        for b in f.order:
            phis = [i for i in f.blocks[b].insns if i.op == 'phi']
            pp = [i for i in phis if (i.ty or '').endswith('*') and all(array_elems(f, x) is not None for x, _ in i.extra['incoming'])]
            cp = [i for i in phis if all(re.match(r'^\d+$', x) for x, _ in i.extra['incoming'])]
            for p_ in pp:
                for c_ in cp:
                    if [pb for _, pb in p_.extra['incoming']] != [pb for _, pb in c_.extra['incoming']]:
                        continue
                    # the count must bound a loop that stores through the pointer
                    used = any(c is not None and c.op == 'icmp' and c.extra['pred'] in ('ult', 'slt') and irrules._strip(f, c.ops[1]) == c_.dst for _, _, c in irrules.cond_branches(mod, f))
                    if not used:
                        continue
                    for (x, pb), (k, _) in zip(p_.extra['incoming'], c_.extra['incoming']):
                        R.instance()
                        n = array_elems(f, x)
                        R.check(int(k) == n, mod.where(f, p_), '%s: the arm %s pairs a hash table of %d buckets with a count of %s: the loop over it covers the wrong number of buckets' % (fn, pb, n, k),
                                key='R-HASH-CLEAR|%s|pair|%s' % (fn, pb), sample='%s: table / count pairs agree (%d)' % (fn, n))

def check_hashentry_position(rep, mod):
    """The entries of the match hash tables are positions in the stream modulo 64K, compared with the current position (total_in + offset) by every matcher.  A write that
    (re)initialises a whole table therefore has to express the value it writes in terms of the current position: derived from stream->total_in, or a constant only where
    total_in == 0 is established.  A table copied in from another object holds positions of another stream; a hashing kernel has to be told the current position."""
    import c19
    R = rep.rule('R-HASHENTRY-POSITION', 'every write of a live match hash table (level_buf->lvlN.hash_table / hash_map.hash_table, internal_state.head) by a C function that has the stream, other than '
                 'through the matchers: the value of memset / wmemset / a fill helper / a store in a loop depends on stream->total_in (entries are stream positions mod 64K) or is written where a branch '
                 'established total_in == 0; memcpy from another object into a live table is not allowed (positions of another stream must be moved to total_in); a dictionary hashing kernel gets '
                 'stream->total_in as its current index', floor=9, unit='table writes')
    zo = c19.field_offsets('struct isal_zstream', ['level_buf', 'total_in', 'internal_state.head'])
    lo = c19.field_offsets('struct level_buf', ['lvl1.hash_table', 'lvl2.hash_table', 'lvl3.hash_table', 'hash_map.hash_table'], headers=('igzip_lib.h', 'igzip_level_buf_structs.h'))
    nsites = 0
    for gn, g in sorted(mod.funcs.items()):
        sidx = [n for n, (t, _) in enumerate(g.params) if 'struct.isal_zstream*' in t]
        if not sidx:
            continue
        si = sidx[0]
        live = {('ld', ('param', si, zo['level_buf']), o) for o in set(lo.values())} | {('param', si, zo['internal_state.head'])}
        P = irrules.prov(mod, g)
        tin = ('mem', ('param', si, zo['total_in']))

        def is_live(ptr, depth=0):
            at = P.atoms(ptr)
            if at and at <= live:
                return True
            # an element of a table selected per level: gep with a variable index over a phi of table pointers
            d = g.defs.get(ptr)
            if d is None or depth > 6:
                return False
            if d.op == 'getelementptr':
                idx = [x.split()[-1] for x in d.extra.get('idx', [])]
                if len(idx) == 1 and not re.match(r'^-?\d+$', idx[0]):      # table[i]
                    return is_live(d.ops[0], depth + 1)
                return False
            if d.op == 'phi':
                return all(is_live(x, depth + 1) for x, _ in d.extra['incoming'])
            return False

        def from_total_in(v):
            return tin in P.deps(v)

        def zero_established(block):
            # every path to the block passes the edge on which (total_in [& mask]) == 0 holds
            just = set()
            for b, t, c in irrules.cond_branches(mod, g):
                if c is None or c.op != 'icmp' or c.extra['pred'] not in ('eq', 'ne') or c.ops[1] != '0' or tin not in P.deps(c.ops[0]):
                    continue
                tt, tf = t.extra['targets']
                just.add((b, tt if c.extra['pred'] == 'eq' else tf))
            seen, work = set(), [g.entry()]
            while work:
                b = work.pop()
                if b in seen:
                    continue
                seen.add(b)
                work += [s_ for s_ in g.blocks[b].succs if (b, s_) not in just]
            return block not in seen
        for i in g.all_insns():
            where = mod.where(g, i)
            if i.op == 'store' and is_live(i.ops[1]):
                nsites += 1
                R.instance()
                v = i.ops[0]
                ok = from_total_in(v) or (re.match(r'^-?\d+$', v) and zero_established(i.block))
                R.check(ok, where, '%s stores a value into a live hash table that does not depend on stream->total_in: the entry is not a position relative to the current point of the stream' % gn,
                        key='R-HASHENTRY-POSITION|%s|store|%s' % (gn, i.block), sample='%s: stored entries depend on total_in' % gn)
            if i.op != 'call' or not i.ops or not is_live(i.ops[0]):
                continue
            cal = i.callee or ''
            nsites += 1
            R.instance()
            if re.match(r'^(llvm\.)?memcpy|^(llvm\.)?memmove', cal):
                R.check(zero_established(i.block), where, '%s copies a table from another object into a live hash table: its entries are positions of another stream (a processed dictionary is hashed as if the stream '
                        'started with it) and are not moved to the current position total_in' % gn, key='R-HASHENTRY-POSITION|%s|memcpy|%s' % (gn, i.block))
            elif re.match(r'^(llvm\.)?memset|^wmemset', cal):
                v = i.ops[1]
                ok = from_total_in(v) or (re.match(r'^-?\d+$', v) and zero_established(i.block))
                R.check(ok, where, '%s fills a live hash table with the constant %s where total_in == 0 is not established: position %s of the stream is the last byte of the history only at the start of the stream; '
                        'later it lies in front of the history (or of the dictionary), and candidates taken from it are read and matched there' % (gn, v, v), key='R-HASHENTRY-POSITION|%s|memset|%s' % (gn, i.block),
                        sample='%s: %s(%s)' % (gn, cal, 'value from total_in' if from_total_in(v) else 'constant under total_in == 0'))
            elif cal in mod.funcs and not re.match(r'^isal_deflate_hash', cal):
                h = mod.funcs[cal]
                Ph = irrules.prov(mod, h)
                vals = set()
                for j in h.all_insns():
                    if j.op == 'store' and any(a[0] == 'param' and a[1] == 0 for a in Ph.atoms(j.ops[1])):
                        vals |= {d for d in Ph.deps(j.ops[0])}
                pv = sorted({d[1] for d in vals if d[0] == 'param'})
                if not vals or len(pv) != len(vals):
                    raise AnalysisBroken('R-HASHENTRY-POSITION: %s passes a live hash table to %s, whose stores are not a plain function of its parameters' % (gn, cal))
                ok = all(k < len(i.ops) and (from_total_in(i.ops[k]) or (re.match(r'^-?\d+$', i.ops[k]) and zero_established(i.block))) for k in pv)
                R.check(ok, where, '%s fills a live hash table through %s with a value that does not depend on stream->total_in' % (gn, cal), key='R-HASHENTRY-POSITION|%s|%s|%s' % (gn, cal, i.block),
                        sample='%s: %s(table, n, value from total_in)' % (gn, cal))
            elif re.match(r'^isal_deflate_hash', cal):
                # (hash_table, hash_mask, current_index, dict, dict_len)
                ok = len(i.ops) >= 3 and from_total_in(i.ops[2])
                R.check(ok, where, '%s hashes a dictionary into a live hash table with a current index that is not stream->total_in' % gn, key='R-HASHENTRY-POSITION|%s|%s|%s' % (gn, cal, i.block),
                        sample='%s: %s(table, mask, total_in, ...)' % (gn, cal))
            else:
                raise AnalysisBroken('R-HASHENTRY-POSITION: %s passes a live hash table to %s, which is not understood' % (gn, cal))
    if nsites == 0:
        raise AnalysisBroken('R-HASHENTRY-POSITION: no write of a live hash table found')


OUT_PARAMS = [('isal_deflate_process_dict', 1, 'the processed-dictionary structure is produced by this call'),
              ('isal_gzip_header_init', 0, 'initialiser'), ('isal_zlib_header_init', 0, 'initialiser'),
              ('isal_deflate_init', 0, 'initialiser of the stream'), ('isal_deflate_stateless_init', 0, 'initialiser of the stream'), ('isal_inflate_init', 0, 'initialiser of the state'),
              ('isal_create_hufftables', 0, 'the table structure is produced by this call'), ('isal_create_hufftables_subset', 0, 'the table structure is produced by this call'),
              ('ec_init_tables_base', 3, 'the expanded tables are produced by this call'), ('gf_vect_mul_init', 1, 'the expanded table is produced by this call')]


def check_out_not_read(rep, mod):
    """an object that a function PRODUCES may hold anything when the function is entered; a field read through the output parameter before the function has written it on every path
    makes the result depend on what the caller's memory happened to contain"""
    R = rep.rule('R-OUT-NOT-READ', 'functions that produce an object through a pointer parameter (%s): no load through that parameter reads bytes that the function has not stored on every path from its entry '
                 '(forward must-written dataflow over the offsets stored through the parameter)' % ', '.join('%s#%d' % (a, b) for a, b, _ in OUT_PARAMS), floor=8, unit='functions')
    for fn, pidx, why in OUT_PARAMS:
        f = mod.funcs.get(fn)
        if f is None:
            raise AnalysisBroken('R-OUT-NOT-READ: %s not found' % fn)
        R.instance()
        P = irrules.prov(mod, f)

        def off(ptr):
            at = P.atoms(ptr)
            if at and all(a[0] == 'param' and a[1] == pidx for a in at):
                return {a[2] for a in at}
            return None
        IN = {b: None for b in f.order}
        IN[f.entry()] = frozenset()
        bad = []
        changed = True
        while changed:
            changed = False
            for b in f.order:
                if IN[b] is None:
                    continue
                cur = set(IN[b])
                for i in f.blocks[b].insns:
                    if i.op == 'load':
                        o = off(i.ops[0])
                        if o is not None and not (None not in o and o <= cur):
                            bad.append(i)
                    elif i.op == 'store':
                        o = off(i.ops[1])
                        if o is not None and None not in o and len(o) == 1:
                            cur |= o
                for s_ in f.blocks[b].succs:
                    nw = frozenset(cur) if IN[s_] is None else IN[s_] & frozenset(cur)
                    if nw != IN[s_]:
                        IN[s_] = nw
                        changed = True
        seen = set()
        for i in bad:
            if (i.block, i.dst) in seen:
                continue
            seen.add((i.block, i.dst))
            R.fail(mod.where(f, i), '%s reads through its output parameter #%d before it has written those bytes (%s): the outcome depends on what the caller\'s memory held before the call' % (fn, pidx, why),
                   key='R-OUT-NOT-READ|%s|%s' % (fn, i.line or i.block))
        if not bad:
            R.ok(1, sample='%s: nothing read through parameter #%d before it is written' % (fn, pidx))


def main(tier):
    rep = Report('C17', tier, level='other')
    rep.undecided = UNDECIDED
    rep.explanation = ('(1) Dominance / value-shape analysis over the LLVM IR of the six portable match finders: the distance operand of every distance-encoding call is guarded by or masked with a value loaded from '
                       'dist_mask; (2) interval abstract interpretation of set_dist_mask over all hist_bits (three window configurations) bounds dist_mask by the window, and of _zlib_header_in_buffer shows the '
                       'advertised CINFO covers it; (3) effect analysis of the dictionary entry points: the invalid-state return has no side effect and the history copy is dominated by the length clamp; '
                       '(4) taint dataflow over the asm match finders (see rule R-DISTGUARD-ASM). The round trip only verifies with ISA-L\'s own 32 KiB inflate, so a match just beyond the requested window is invisible to the suite.')
    rep.trusted = ['clang IR + sroa', 'tools/llir.py dominators/dependencies', 'tools/intervals.py (sound interval transfer functions, full range on anything not modelled)', 'ASMFLOW taint domain']
    mod = llir.library('default')
    S = c19.summaries(mod)
    rep.attempt(check_distguard_c, rep, mod)
    rep.attempt(check_masked_nohist, rep, mod)
    rep.attempt(check_hashmask_field, rep, mod)
    rep.attempt(check_hist_after_space, rep)
    for c in CONFIGS:
        check_mask_range(rep, c)
    rep.attempt(check_dict, rep, mod, S)
    rep.attempt(check_dict_guard_siblings, rep, mod)
    rep.attempt(check_mask_fresh, rep, mod, S)
    rep.attempt(check_dict_tail, rep, mod)
    rep.attempt(check_hash_clear, rep, mod)
    rep.attempt(check_hashentry_position, rep, mod)
    rep.attempt(check_out_not_read, rep, mod)
    try:
        import c17_asm
        c17_asm.check(rep)
    except ImportError:
        pass
    return rep.finish()
