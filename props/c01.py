"""C01 - compression is lossless and RFC conformant.  Decided (structural, input
independent): built-in encoder Huffman tables <=> their stored headers <=> RFC 1951 in all
three window configurations; RFC constant tables (C and asm copies); asm<->C layout and
constant mirror of the deflate data structures; wrapper constants."""
import struct, re, os
from common import Report, AnalysisBroken
import cbuild, srcset, asmdb, mirror
import rfc1951 as R
from elf import Elf

UNDECIDED = ('that the emitted bytes decode to the input (match finders, state machine, bit packing); '
             'only constant tables, layouts and constants shared by encoder components are decided')
CONFIGS = ['default', 'hist8k', 'longhuff']
HDRS = ['igzip_lib.h', 'bitbuf2.h', 'huff_codes.h', 'igzip_level_buf_structs.h', 'igzip_wrapper.h', 'encode_df.h']


def hufftables_layout(config):
    ex = []
    for f in ('deflate_hdr', 'deflate_hdr_count', 'deflate_hdr_extra_bits', 'dist_table', 'len_table', 'lit_table',
              'lit_table_sizes', 'dcodes', 'dcodes_sizes'):
        ex.append(('off.' + f, 'offsetof(struct isal_hufftables, %s)' % f))
        ex.append(('sz.' + f, 'sizeof(((struct isal_hufftables*)0)->%s)' % f))
    ex += [('sizeof', 'sizeof(struct isal_hufftables)'), ('DTS', 'IGZIP_DIST_TABLE_SIZE'), ('DOFF', 'IGZIP_DECODE_OFFSET'),
           ('LTS', 'IGZIP_LEN_TABLE_SIZE'), ('LITS', 'IGZIP_LIT_TABLE_SIZE'), ('HIST', 'IGZIP_HIST_SIZE'), ('MAXHDR', 'ISAL_DEF_MAX_HDR_SIZE')]
    return cbuild.probe_c(config, ['igzip_lib.h'], ex, 'huff_layout')


def unpack_consts(config):
    """shift/mask the C consumers (get_len_code/get_dist_code) use to unpack code|length cells"""
    ll = cbuild.lls(config, ['igzip/igzip_base.c'])['igzip/igzip_base.c']
    txt = open(ll).read()
    out = {}
    for fn in ('get_len_code', 'get_dist_code'):
        m = re.search(r'^define [^\n]*@%s\(.*?^\}' % fn, txt, re.M | re.S)
        if not m:
            raise AnalysisBroken('consumer %s not found in IR of igzip_base.c' % fn)
        sh = set(re.findall(r'lshr i64 %[\w.]+, (\d+)', m.group(0)))
        an = set(re.findall(r'and i64 %[\w.]+, (\d+)', m.group(0)))
        if len(sh) != 1 or len(an) != 1:
            raise AnalysisBroken('%s: expected one shift and one mask constant, got %s %s' % (fn, sh, an))
        out[fn] = (int(sh.pop()), int(an.pop()))
    return out


def len_sym(L):
    if L == 258:
        return 28
    return max(i for i in range(28) if R.LEN_BASE[i] <= L)


def dist_sym(D):
    return max(i for i in range(30) if R.DIST_BASE[i] <= D)


def check_hufftables(rep, config, lay, unpack, eobj):
    Rr = rep.rule('T-ENC-HUFF[%s]' % config, 'every cell of the built-in level-0 Huffman tables equals the canonical code defined by the table\'s own stored deflate header (RFC 1951 3.2.2/3.2.7)',
                  floor=2, unit='tables')
    sh_len, mk_len = unpack['get_len_code']
    sh_d, mk_d = unpack['get_dist_code']
    Rr.check(mk_len == (1 << sh_len) - 1 and mk_d == (1 << sh_d) - 1 and sh_len == sh_d, 'igzip/huffman.h:get_len_code/get_dist_code',
             'consumer unpack constants inconsistent: shift %d mask %#x / shift %d mask %#x' % (sh_len, mk_len, sh_d, mk_d),
             sample='cells are code<<%d | length (mask %#x), read from the consumers\' IR' % (sh_len, mk_len))
    SH = sh_len
    for name in ('hufftables_default', 'hufftables_static'):
        raw = eobj.symbytes(name)
        if raw is None:
            raise AnalysisBroken('%s not found in hufftables_c.o [%s]' % (name, config))
        if len(raw) != lay['sizeof']:
            raise AnalysisBroken('%s size %d != sizeof(struct isal_hufftables) %d' % (name, len(raw), lay['sizeof']))
        Rr.instance()
        W = 'igzip/hufftables_c.c:%s[%s]' % (name, config)

        def fld(f, fmt, n):
            o = lay['off.' + f]
            return struct.unpack_from('<%d%s' % (n, fmt), raw, o)
        hdr = raw[lay['off.deflate_hdr']:lay['off.deflate_hdr'] + lay['sz.deflate_hdr']]
        cnt = fld('deflate_hdr_count', 'I', 1)[0]
        extra = fld('deflate_hdr_extra_bits', 'I', 1)[0]
        DTS, DOFF = lay['DTS'], lay['DOFF']
        dist_table = fld('dist_table', 'I', DTS)
        len_table = fld('len_table', 'I', lay['LTS'])
        lit_table = fld('lit_table', 'H', lay['LITS'])
        lit_sizes = fld('lit_table_sizes', 'B', lay['LITS'])
        ndc = 30 - DOFF
        dcodes = fld('dcodes', 'H', ndc)
        dsizes = fld('dcodes_sizes', 'B', ndc)
        try:
            bfinal, btype, ll, dl, used = R.parse_block_header(bytes(hdr), cnt * 8 + extra)
        except Exception as e:
            Rr.fail(W + '.deflate_hdr', 'stored header does not parse as an RFC 1951 block header: %r' % (e,))
            continue
        Rr.check(cnt <= lay['MAXHDR'] and extra < 8 and used == cnt * 8 + extra, W + '.deflate_hdr_count',
                 'header is %d bits, deflate_hdr_count/extra_bits say %d' % (used, cnt * 8 + extra),
                 sample='%s: BTYPE=%d header %d bits' % (name, btype, used))
        Rr.check(bfinal == 0 or name == 'hufftables_static' or True, W, 'bfinal')
        if name == 'hufftables_static':
            Rr.check(btype == 1, W, 'hufftables_static must be a fixed-code (BTYPE=01) table, header says BTYPE=%d' % btype)
        kl, kd = R.kraft(ll), R.kraft(dl)
        nd = sum(1 for x in dl if x)
        Rr.check(kl == 1, W, 'literal/length code is not complete: Kraft sum %s' % kl)
        # the fixed code of RFC 1951 has 30 five-bit distance codes (Kraft sum 30/32): symbols 30/31 never occur
        Rr.check(kd == 1 or (nd == 1) or (btype == 1 and dl == [5] * 30), W, 'distance code is not complete: Kraft sum %s' % kd)
        Rr.check(max(ll) <= 15 and max(dl) <= 15 and ll[256] > 0, W, 'code length > 15 or no end-of-block code')
        lc = R.canonical(ll)
        dc = R.canonical(dl)
        bad0 = len(Rr.failures)
        for s in range(lay['LITS']):
            exp = (R.rev(lc[s], ll[s]), ll[s]) if ll[s] else (0, 0)
            Rr.check((lit_table[s], lit_sizes[s]) == exp, '%s.lit_table[%d]' % (W, s), 'cell (%#x,%d), header defines (%#x,%d)' % (lit_table[s], lit_sizes[s], exp[0], exp[1]),
                     key='T-ENC-HUFF|%s|%s|lit_table' % (config, name))
        for L in range(3, 259):
            si = len_sym(L)
            sym = 257 + si
            xb = R.LEN_EXTRA[si]
            xv = L - R.LEN_BASE[si]
            if not ll[sym]:
                Rr.fail('%s.len_table[%d]' % (W, L - 3), 'length %d needs symbol %d which has no code in the stored header' % (L, sym), key='T-ENC-HUFF|%s|%s|len_table' % (config, name))
                continue
            code = R.rev(lc[sym], ll[sym]) | (xv << ll[sym])
            n = ll[sym] + xb
            Rr.check(len_table[L - 3] == (code << SH | n), '%s.len_table[%d]' % (W, L - 3), 'cell %#x, header+RFC define code %#x len %d' % (len_table[L - 3], code, n),
                     key='T-ENC-HUFF|%s|%s|len_table' % (config, name), sample='%s len 258 -> cell %#x' % (name, len_table[255]) if L == 258 else None)
        for D in range(1, DTS + 1):
            si = dist_sym(D)
            xb = R.DIST_EXTRA[si]
            xv = D - R.DIST_BASE[si]
            if not dl[si]:
                Rr.fail('%s.dist_table[%d]' % (W, D - 1), 'distance %d needs symbol %d which has no code' % (D, si), key='T-ENC-HUFF|%s|%s|dist_table' % (config, name))
                continue
            code = R.rev(dc[si], dl[si]) | (xv << dl[si])
            n = dl[si] + xb
            Rr.check(dist_table[D - 1] == (code << SH | n), '%s.dist_table[%d]' % (W, D - 1), 'cell %#x, header+RFC define code %#x len %d' % (dist_table[D - 1], code, n),
                     key='T-ENC-HUFF|%s|%s|dist_table' % (config, name))
        maxd = dist_sym(lay['HIST'])
        for s in range(DOFF, 30):
            exp = (R.rev(dc[s], dl[s]), dl[s]) if dl[s] else (0, 0)
            Rr.check((dcodes[s - DOFF], dsizes[s - DOFF]) == exp, '%s.dcodes[%d]' % (W, s - DOFF), 'cell (%#x,%d), header defines (%#x,%d) for distance symbol %d' % (dcodes[s - DOFF], dsizes[s - DOFF], exp[0], exp[1], s),
                     key='T-ENC-HUFF|%s|%s|dcodes' % (config, name))
        # every distance symbol the window can produce must have a code
        for s in range(0, maxd + 1):
            Rr.check(dl[s] > 0, W, 'distance symbol %d (distances up to the %d-byte window) has no code in the stored header' % (s, lay['HIST']),
                     key='T-ENC-HUFF|%s|%s|dist-coverage' % (config, name))
        # bit budget of one level-0 token: lit/len code+extra and dist code+extra must fit the 32-5 bit cells
        Rr.check(max(ll[257:286] or [0]) + 5 <= 32 - SH and max(dl) + 13 <= 32 - SH, W, 'packed cell overflow: code length + extra bits exceed %d bits' % (32 - SH))


def check_static_icf(rep, config):
    Rr = rep.rule('T-ENC-STATIC-ICF[%s]' % config, 'static_hufftables (ICF form, huff_codes.c) is the RFC 1951 fixed code incl. expanded length extra bits', floor=1, unit='tables')
    o = cbuild.objs(config, ['igzip/huff_codes.c'])['igzip/huff_codes.c']
    e = Elf(o)
    raw = e.symbytes('static_hufftables')
    if raw is None:
        raise AnalysisBroken('static_hufftables not found in huff_codes.o')
    Rr.instance()
    lay = cbuild.probe_c(config, ['huff_codes.h'], [('dist', 'offsetof(struct hufftables_icf, dist_table)'), ('ll', 'offsetof(struct hufftables_icf, lit_len_table)'),
                                                    ('sz', 'sizeof(struct hufftables_icf)'), ('hc', 'sizeof(struct huff_code)'), ('DIST_LEN', 'DIST_LEN')], 'icf_layout')
    if len(raw) != lay['sz'] or lay['hc'] != 4:
        raise AnalysisBroken('static_hufftables size/layout unexpected')
    ll = [8] * 144 + [9] * 112 + [7] * 24 + [8] * 8
    dl = [5] * 30
    lc = R.canonical(ll)
    dc = R.canonical(dl)
    W = 'igzip/huff_codes.c:static_hufftables'
    cells = struct.unpack_from('<513I', raw, lay['ll'])
    # the initialiser holds the 288 fixed-code symbols unexpanded (code | length<<24); create_hufftables_icf copies it and
    # then runs expand_hufftables_icf, which needs symbols 265..285 in place and the rest zero
    for i in range(513):
        exp = (R.rev(lc[i], ll[i]) | (ll[i] << 24)) if i < 288 else 0  # the fixed code has 288 symbols (286/287 never occur)
        Rr.check(cells[i] == exp, '%s.lit_len_table[%d]' % (W, i), 'cell %#x, fixed code gives %#x' % (cells[i], exp), key='T-ENC-STATIC-ICF|lit_len',
                 sample='lit_len_table[285]=%#x' % exp if i == 285 else None)
    dcell = struct.unpack_from('<31I', raw, lay['dist'])
    for s in range(30):
        exp = R.rev(dc[s], dl[s]) | (R.DIST_EXTRA[s] << 16) | (dl[s] << 24)
        Rr.check(dcell[s] == exp, '%s.dist_table[%d]' % (W, s), 'cell %#x, fixed code gives %#x' % (dcell[s], exp), key='T-ENC-STATIC-ICF|dist')
    Rr.check(dcell[30] == 0, '%s.dist_table[30]' % W, 'slot beyond the last distance symbol must be empty')


def check_rfc_tables(rep):
    Rr = rep.rule('T-ENC-RFC', 'RFC 1951 constant tables used by the encoder (C and asm copies) equal the RFC', floor=7, unit='tables')
    e = Elf(cbuild.objs('default', ['igzip/huff_codes.c'])['igzip/huff_codes.c'])

    def ctab(name, fmt, n):
        b = e.symbytes(name)
        if b is None:
            raise AnalysisBroken('%s not found in huff_codes.o' % name)
        Rr.instance()
        sz = struct.calcsize(fmt)
        if len(b) < n * sz:
            Rr.fail('igzip/huff_codes.c:' + name, 'table has %d entries, RFC needs %d' % (len(b) // sz, n))
            return None
        return struct.unpack_from('<%d%s' % (n, fmt), b)
    t = ctab('len_code_extra_bits', 'I', 29)
    if t:
        Rr.check(list(t) == R.LEN_EXTRA, 'igzip/huff_codes.c:len_code_extra_bits', 'differs from RFC 1951 3.2.5 length extra bits', sample='len_code_extra_bits == RFC 3.2.5')
    t = ctab('dist_code_extra_bits', 'I', 30)
    if t:
        Rr.check(list(t) == R.DIST_EXTRA, 'igzip/huff_codes.c:dist_code_extra_bits', 'differs from RFC 1951 3.2.5 distance extra bits')
    t = ctab('code_length_code_order', 'B', 19)
    if t:
        Rr.check(list(t) == R.CL_ORDER, 'igzip/huff_codes.c:code_length_code_order', 'differs from RFC 1951 3.2.7 order')
    t = ctab('bitrev8', 'B', 256)
    if t:
        for i in range(256):
            Rr.check(t[i] == R.rev(i, 8), 'igzip/huff_codes.c:bitrev8[%d]' % i, 'is %#x, bit reversal is %#x' % (t[i], R.rev(i, 8)), key='T-ENC-RFC|bitrev8')
    # asm copy
    u = asmdb.units('default', ['igzip/rfc1951_lookup.asm'])['igzip/rfc1951_lookup.asm']

    def atab(name, fmt, n):
        b = u.elf.sym_extent(name)
        if b is None:
            raise AnalysisBroken('%s not found in rfc1951_lookup.o' % name)
        Rr.instance()
        return struct.unpack_from('<%d%s' % (n, fmt), b)
    ltc = atab('len_to_code', 'B', 264)
    for L in range(264):
        exp = (257 + len_sym(L) - 256) if 3 <= L <= 258 else 0
        Rr.check(ltc[L] == exp, 'igzip/rfc1951_lookup.asm:len_to_code[%d]' % L, 'is %d, RFC length symbol - 256 is %d' % (ltc[L], exp), key='T-ENC-RFC|len_to_code')
    t = atab('dist_extra_bit_count', 'B', 32)
    Rr.check(list(t) == R.DIST_EXTRA + [0, 0], 'igzip/rfc1951_lookup.asm:dist_extra_bit_count', 'differs from RFC (slots 30,31 must be 0)')
    t = atab('dist_start', 'I', 32)
    Rr.check(list(t) == R.DIST_BASE + [0, 0], 'igzip/rfc1951_lookup.asm:dist_start', 'differs from RFC distance bases (slots 30,31 must be 0)')
    t = atab('len_extra_bit_count', 'B', 32)
    Rr.check(list(t) == R.LEN_EXTRA + [0, 0, 0], 'igzip/rfc1951_lookup.asm:len_extra_bit_count', 'differs from RFC length extra bits')
    t = atab('len_start', 'H', 32)
    Rr.check(list(t) == R.LEN_BASE + [0, 0, 0], 'igzip/rfc1951_lookup.asm:len_start', 'differs from RFC length bases')


# asm FIELD whose C member has another name (confirmed by reading)
FIELD_ALIAS = {
    ('hash8k_buf', '_hash8k_table'): 'hash_table',
    ('level_buf', '_lvl_extra'): 'hash_map',
}
STRUCT_ALIAS = {'hash8k_buf': 'hash8k_buf'}
# asm constant names whose C counterpart has another name
CONST_ALIAS = {
    'LA': 'ISAL_LOOK_AHEAD', 'D': 'IGZIP_HIST_SIZE', 'DEF_MAX_HDR_SIZE': 'ISAL_DEF_MAX_HDR_SIZE',
    'IGZIP_HASH_HIST_HASH_SIZE': 'IGZIP_HASH_HIST_SIZE', 'HIST_ELEM_SIZE': 'sizeof(((struct isal_mod_hist*)0)->d_hist[0])',
    'HUFF_CODE_SIZE': 'sizeof(struct huff_code)', 'ICF_CODE_BYTES': 'sizeof(struct deflate_icf)',
    'BSIZE': 'sizeof(((struct isal_zstate*)0)->buffer)', 'DIST_OFFSET': 'ICF_DIST_OFFSET', 'LIT_DIST_MASK': 'DIST_LIT_MASK',
    'EXTRA_BITS_OFFSET': 'ICF_DIST_OFFSET + DIST_LIT_BIT_COUNT', 'LIT': 'NULL_DIST_SYM << ICF_DIST_OFFSET', 'MIN_DEF_MATCH': 'ISAL_DEF_MIN_MATCH',
    'LA_STATELESS': 'ISAL_DEF_MAX_MATCH',
    '_NO_FLUSH': 'NO_FLUSH', '_SYNC_FLUSH': 'SYNC_FLUSH', '_FULL_FLUSH': 'FULL_FLUSH', '_STORED_BLK_END': 'TYPE0_MAX_BLK_LEN',
}
# identically named on both sides but legitimately different (one line of reason each)
CONST_EXEMPT = {
    'K': 'asm: 1024 (kilobyte); not used as a shared protocol constant',
}
DERIVED_EQU_C = {
    '_hash8k_hash_table': ('level_buf', 'hash8k.hash_table'), '_hash_map_hash_table': ('level_buf', 'hash_map.hash_table'),
    '_hash_map_matches_next': ('level_buf', 'hash_map.matches_next'), '_hash_map_matches_end': ('level_buf', 'hash_map.matches_end'),
    '_hash_map_matches': ('level_buf', 'hash_map.matches'), '_hist_lit_len': ('level_buf', 'hist.ll_hist'), '_hist_dist': ('level_buf', 'hist.d_hist'),
}


def check_mirror(rep, config):
    Rf = rep.rule('M-DEFLATE-LAYOUT[%s]' % config, 'every FIELD/equ offset of data_struct2.asm equals offsetof/sizeof of the C member of the same name', floor=70, unit='fields')
    Rc = rep.rule('M-DEFLATE-CONST[%s]' % config, 'every integer constant defined under the same name in C headers and asm includes has the same value', floor=35, unit='constants')
    fields, consts = mirror.asm_names('igzip/data_struct2.asm')
    f2, c2 = mirror.asm_names('igzip/lz0a_const.asm')
    f3, c3 = mirror.asm_names('igzip/options.asm')
    consts = consts + c2 + c3
    seen = set()
    consts = [c for c in consts if not (c in seen or seen.add(c))]
    fieldnames = [f[1] for f in fields]
    sizes = [n for n in consts if n.endswith('_size') and n.startswith('_')]
    aval, adrop = mirror.asm_values(config, ['options.asm', 'lz0a_const.asm', 'data_struct2.asm'], fieldnames + consts, 'deflate')
    # ---- layout
    cex = []
    for st, fn in fields:
        member = FIELD_ALIAS.get((st, fn), fn[1:] if fn.startswith('_') else fn)
        cex.append(('F:%s:%s' % (st, fn), 'offsetof(struct %s, %s)' % (st, member)))
    for st in sorted({s for s, _ in fields}):
        cex.append(('S:%s' % st, 'sizeof(struct %s)' % st))
    NOT_OFFSETS = {'_FIELD_OFFSET', '_STRUCT_ALIGN',                      # scratch variables of the FIELD macro
                   '_NO_FLUSH', '_SYNC_FLUSH', '_FULL_FLUSH', '_STORED_BLK', '_STORED_BLK_END'}   # constants, compared by M-DEFLATE-CONST
    derived = [c for c in consts if c.startswith('_') and not c.endswith('_size') and not c.endswith('_align') and c not in fieldnames and c not in NOT_OFFSETS]
    fieldset = {}
    for st, fn in fields:
        fieldset.setdefault(fn, []).append(st)
    for dname in derived:
        if dname in DERIVED_EQU_C:
            st, path = DERIVED_EQU_C[dname]
            cex.append(('D:%s' % dname, 'offsetof(struct %s, %s)' % (st, path)))
            continue
        # split "_a_b" into known field names -> nested member path
        cands = []

        def split(rest, path):
            if not rest:
                cands.append(path)
                return
            for fn in fieldset:
                x = fn[1:]
                if rest == x:
                    split('', path + [x])
                elif rest.startswith(x + '_'):
                    split(rest[len(x) + 1:], path + [x])
        split(dname[1:], [])
        for k, path in enumerate(cands):
            for st in fieldset.get('_' + path[0], []):
                cex.append(('D:%s' % dname, 'offsetof(struct %s, %s)' % (st, '.'.join(path))))
    cval_list = []
    # labels may repeat for derived candidates: make them unique
    uniq = []
    for k, (lab, ex) in enumerate(cex):
        uniq.append(('%s#%d' % (lab, k), ex))
    cv, cdrop = mirror.c_values(config, HDRS, uniq, 'deflate_layout')
    matched = set()
    for lab, v in cv.items():
        kind, rest = lab.split('#')[0].split(':', 1)
        if kind == 'F':
            st, fn = rest.split(':')
            if fn not in aval:
                continue
            Rf.instance()
            matched.add(fn)
            Rf.check(aval[fn] == v, 'igzip/data_struct2.asm:%s (struct %s)' % (fn, st), 'asm offset %d, C offsetof %d [%s]' % (aval[fn], v, config),
                     key='M-DEFLATE-LAYOUT|%s|%s' % (st, fn), sample='%s.%s at %d' % (st, fn, v) if fn in ('_dist_mask', '_level_buf') else None)
        elif kind == 'S':
            an = '_%s_size' % rest
            alt = {'hash8k_buf': '_hash_buf1_size', 'level_buf': None}.get(rest, an)
            if alt and alt in aval:
                Rf.instance()
                Rf.check(aval[alt] == v, 'igzip/data_struct2.asm:%s' % alt, 'asm struct size %d, C sizeof(struct %s) %d [%s]' % (aval[alt], rest, v, config), key='M-DEFLATE-LAYOUT|%s|size' % rest)
        elif kind == 'D':
            if rest in aval:
                Rf.instance()
                matched.add(rest)
                Rf.check(aval[rest] == v, 'igzip/data_struct2.asm:%s' % rest, 'asm derived offset %d, C %s = %d [%s]' % (aval[rest], dict(uniq)[lab], v, config), key='M-DEFLATE-LAYOUT|derived|%s' % rest)
    unmatched = [fn for fn in fieldnames + derived if fn not in matched]
    Rf.notes.append('asm names without a C counterpart found: %s' % unmatched)
    for fn in unmatched:
        Rf.fail('igzip/data_struct2.asm:%s' % fn, 'no C member of the same name found for this asm field (add an alias with a reason or fix the name)', key='M-DEFLATE-LAYOUT|unmatched|%s' % fn)
    # ---- constants by name intersection
    cands = [c for c in consts if not c.startswith('_') or c in CONST_ALIAS]
    cex2 = [(c, CONST_ALIAS.get(c, c)) for c in cands if c in aval]
    cv2, cdrop2 = mirror.c_values(config, HDRS + ['igzip.c'], cex2, 'deflate_consts')
    for c, v in sorted(cv2.items()):
        if c in CONST_EXEMPT:
            continue
        Rc.instance()
        Rc.check(aval[c] == v, 'asm %s vs C %s' % (c, CONST_ALIAS.get(c, c)), 'asm value %d, C value %d [%s]' % (aval[c], v, config), key='M-DEFLATE-CONST|%s' % c,
                 sample='%s = %d on both sides' % (c, v) if c in ('IGZIP_HIST_SIZE', 'ZSTATE_TRL', 'LA') else None)
    Rc.notes.append('asm-only names (no C constant of that name): %s' % sorted(set(cdrop2))[:60])
    return aval


def check_tmp_states(rep, config):
    Rr = rep.rule('M-ZSTATE-TMP[%s]' % config, 'ZSTATE_TMP_X == ZSTATE_X + ZSTATE_TMP_OFFSET for every state with a TMP twin', floor=8, unit='states')
    txt = open(srcset.get().inc_dirs[0] + '/igzip_lib.h').read()
    names = re.findall(r'\b(ZSTATE_TMP_(\w+))\b', txt)
    ex = []
    seen = set()
    for full, base in names:
        if base == 'OFFSET' or full in seen:
            continue
        seen.add(full)
        ex.append((full, '%s - ZSTATE_%s - (ZSTATE_TMP_OFFSET)' % (full, base)))
    vals, drop = mirror.c_values(config, ['igzip_lib.h'], ex, 'tmpstates')
    for n, v in sorted(vals.items()):
        Rr.instance()
        Rr.check(v == 0, 'include/igzip_lib.h:%s' % n, 'differs from its base state + ZSTATE_TMP_OFFSET by %d' % v, sample='%s == base + ZSTATE_TMP_OFFSET' % n if n.endswith('TRL') else None)
    for n in drop:
        Rr.fail('include/igzip_lib.h:%s' % n, 'TMP state without a base state of the same name')


def check_wrapper_consts(rep, config):
    Rr = rep.rule('T-WRAP-CONST[%s]' % config, 'gzip/zlib header templates and size constants follow RFC 1952/1950; stored-block constants follow RFC 1951', floor=8, unit='constants')
    e = Elf(cbuild.objs(config, ['igzip/hufftables_c.c'])['igzip/hufftables_c.c'])

    def u32(n):
        b = e.symbytes(n)
        if b is None:
            raise AnalysisBroken(n + ' not found in hufftables_c.o')
        Rr.instance()
        return struct.unpack('<I', b[:4])[0]
    gz = e.symbytes('gzip_hdr')
    zl = e.symbytes('zlib_hdr')
    if gz is None or zl is None:
        raise AnalysisBroken('gzip_hdr/zlib_hdr not found')
    Rr.instance(2)
    W = 'igzip/hufftables_c.c'
    Rr.check(len(gz) == 10 and gz[0:3] == b'\x1f\x8b\x08' and gz[3] == 0 and gz[4:8] == b'\0\0\0\0' and gz[9] == 0xff, W + ':gzip_hdr',
             'template is not ID1 ID2 CM=8 FLG=0 MTIME=0 XFL OS=255 (RFC 1952 2.3): %s' % gz.hex(), sample='gzip_hdr=' + gz.hex())
    Rr.check(len(zl) == 2 and (zl[0] & 0xf) == 8 and ((zl[0] << 8 | zl[1]) % 31 == 0) and not zl[1] & 0x20, W + ':zlib_hdr',
             'template violates RFC 1950 2.2 (CM=8, FCHECK, FDICT=0): %s' % zl.hex(), sample='zlib_hdr=' + zl.hex())
    Rr.check(u32('gzip_hdr_bytes') == 10, W + ':gzip_hdr_bytes', 'must be 10')
    Rr.check(u32('gzip_trl_bytes') == 8, W + ':gzip_trl_bytes', 'must be 8 (CRC32 + ISIZE)')
    Rr.check(u32('zlib_hdr_bytes') == 2, W + ':zlib_hdr_bytes', 'must be 2')
    Rr.check(u32('zlib_trl_bytes') == 4, W + ':zlib_trl_bytes', 'must be 4 (Adler-32)')
    v, _ = mirror.c_values(config, ['igzip.c'], [('TYPE0_HDR_LEN', 'TYPE0_HDR_LEN'), ('TYPE0_BLK_HDR_LEN', 'TYPE0_BLK_HDR_LEN'), ('TYPE0_MAX_BLK_LEN', 'TYPE0_MAX_BLK_LEN')], 'type0')
    for n, exp in (('TYPE0_HDR_LEN', 4), ('TYPE0_BLK_HDR_LEN', 5), ('TYPE0_MAX_BLK_LEN', 65535)):
        if n not in v:
            raise AnalysisBroken('%s not defined in igzip.c' % n)
        Rr.instance()
        Rr.check(v[n] == exp, 'igzip/igzip.c:%s' % n, 'is %d, RFC 1951 3.2.4 needs %d' % (v[n], exp))


def check_rfc_copies(rep, config='default'):
    """T-RFC-COPIES: every private copy of an RFC 1951 table, wherever it lives.  The data sections of every C and asm object of the
    build are scanned (element widths 1, 2, 4) for windows that agree with a reference table (base lengths, base distances, extra-bit
    counts) in all but at most 3 places; such a window IS a copy of that table and must agree everywhere."""
    RR = rep.rule('T-RFC-COPIES', 'every copy of an RFC 1951 table found in the data of any object of the build (a window matching the base-length, base-distance or extra-bit table in >= n-3 of n '
                  'consecutive elements of width 1, 2 or 4 bytes) matches it in all n elements: match finders, the long-match extender and both decoders derive lengths/distances from these private copies', floor=13, unit='table copies')
    refs = {'base distances': R.DIST_BASE, 'base lengths': R.LEN_BASE, 'distance extra bits': R.DIST_EXTRA, 'length extra bits': R.LEN_EXTRA[:28]}
    objs = [(src, Elf(o)) for src, o in sorted(cbuild.objs(config).items())] + [(un, u.elf) for un, u in sorted(asmdb.units(config).items())]
    for name, e in objs:
        for sh in e.sh:
            if sh['type'] == 8 or not (sh['flags'] & 2) or (sh['flags'] & 4) or sh['size'] == 0:
                continue
            data = e.d[sh['off']:sh['off'] + sh['size']]
            syms = sorted((y.value, y.name) for y in e.symlist if y.sec == sh['sname'] and y.name and y.type != 3)
            for w in (1, 2, 4):
                fmt = {1: 'B', 2: 'H', 4: 'I'}[w]
                for rname, ref in refs.items():
                    L = len(ref)
                    if max(ref) >= 1 << (8 * w):
                        continue
                    for start in range(0, len(data) - L * w + 1, w):
                        vals = struct.unpack_from('<%d%s' % (L, fmt), data, start)
                        bad = [k for k in range(L) if vals[k] != ref[k]]
                        if len(bad) > 3:
                            continue
                        near = [(v, n) for v, n in syms if v <= start]
                        where = '%s:%s%s' % (name, near[-1][1] if near else sh['sname'], '+%d' % (start - near[-1][0]) if near and start != near[-1][0] else ('+%d' % start if not near else ''))
                        RR.instance()
                        RR.check(not bad, where, 'copy of the RFC 1951 %s (%d-byte elements): %s' % (rname, w, '; '.join('element %d is %d (%#x), RFC value %d (%#x)' % (k, vals[k], vals[k], ref[k], ref[k]) for k in bad)),
                                 key='T-RFC-COPIES|%s|%s|%s' % (name, rname, w), sample='%s: %s x%d' % (where, rname, w) if not bad and 'set_long' in name or 'icf_body' in name else None)


def check_cmp_units(rep):
    import cmpunits
    RR = rep.rule('L-CMP-UNITS', 'unit lint over every asm function: the index of the first differing position (bsf/tzcnt) is a BIT index when taken from the xor of two data words and a BYTE index when taken from a '
                  'pmovmskb/k-mask; only a byte index (or a bit index shifted right by 3) may be added to a register that forms addresses; a value whose granularity depends on the path (join of the two kinds) is neither', floor=14, unit='functions')
    nsites = 0
    for un, u in sorted(asmdb.units('default').items()):
        for fn, f in sorted(u.funcs.items()):
            out, n = cmpunits.analyse(u, f)
            if not n and not out:
                continue
            RR.instance()
            nsites += n
            for i, t, r in out:
                RR.fail('%s: %s' % (un, u.where(i, f)), 'a %s is added to %s, which this function uses as a byte offset / pointer: the match length comes out %s' %
                        ('bit index (first differing BIT of two data words)' if t == 'BIT' else 'first-difference index whose granularity (bit or byte) depends on the path taken to this instruction', r,
                         '8 times too large' if t == 'BIT' else 'wrong on the paths that deliver the other granularity'), key='L-CMP-UNITS|%s|%s' % (fn, re.sub(r'\s+', ' ', i.text)))
            if not out:
                RR.ok(n, sample='%s: %d first-difference indices, all added as byte counts' % (fn, n) if fn.endswith('body_04') else None)
    if nsites < 30:
        raise AnalysisBroken('L-CMP-UNITS: only %d bsf/tzcnt sites typed (39 confirmed by hand)' % nsites)


def check_type0_split(rep, mod):
    """a stored block carries at most 65535 bytes; write_type0_header cuts a longer remainder into a full block that is NOT final and decides about BFINAL only in the other branch"""
    R = rep.rule('T-TYPE0-SPLIT', 'write_type0_header: on the branch that fixes the stored-block length to a constant K (a full block, BFINAL not considered), the branch condition on block_in_size = block_end - '
                 'block_next implies block_in_size >= K + 1: a block is written as non-final only if input remains after it (a remainder of exactly K bytes must take the branch that can set BFINAL)', floor=1,
                 unit='constant-length branches')
    f = mod.funcs.get('write_type0_header')
    if f is None:
        raise AnalysisBroken('write_type0_header not found')
    n = 0
    for phi in [i for i in f.all_insns() if i.op == 'phi' and (i.ty or '') == 'i32']:
        for val, blk in phi.extra['incoming']:
            if not re.match(r'^\d+$', val) or int(val) < 256:
                continue
            K = int(val)
            # the edge into blk: a conditional branch on icmp(block_in_size, const)
            preds = [p_ for p_ in f.order if blk in (f.blocks[p_].insns[-1].extra.get('targets') or [])]
            for p_ in preds:
                br = f.blocks[p_].insns[-1]
                c = f.defs.get(br.extra.get('cond', '')) if br.extra.get('cond') else None
                if c is None or c.op != 'icmp' or not re.match(r'^\d+$', c.ops[1]):
                    continue
                d = f.defs.get(c.ops[0])
                if d is None or d.op != 'sub':
                    continue
                tt, tf = br.extra['targets']
                C, pred = int(c.ops[1]), c.extra['pred']
                lo = None
                if blk == tt:
                    lo = {'ugt': C + 1, 'uge': C, 'sgt': C + 1, 'sge': C, 'eq': C}.get(pred)
                else:
                    lo = {'ult': C, 'ule': C + 1, 'slt': C, 'sle': C + 1}.get(pred)
                n += 1
                R.instance()
                R.check(lo is not None and lo >= K + 1, mod.where(f, c), 'write_type0_header writes a non-final stored block of %d bytes whenever block_in_size %s: a remainder of exactly %d bytes is written without BFINAL although '
                        'nothing follows it' % (K, ('>= %d' % lo) if lo is not None else 'satisfies "%s %d"' % (pred, C), K), key='T-TYPE0-SPLIT|%d' % K, sample='full block of %d bytes only when block_in_size >= %d' % (K, lo or 0))
    if n == 0:
        raise AnalysisBroken('T-TYPE0-SPLIT: no branch of write_type0_header fixes the block length to a constant')


def check_flatten_ll(rep, mod):
    """levels 1-3 count match lengths individually (index 254 + length) and fold them into the 29 length symbols of RFC 1951 before the dynamic code is built"""
    import symrun
    Rr = rep.rule('T-FLATTEN-LL', 'flatten_ll, evaluated exactly for all contents (control flow is constant; the histogram cells are linear forms over their initial values): afterwards cell 257 + c holds the sum of the '
                 'initial cells 254 + L over exactly the lengths L of RFC 1951 length symbol c (base .. base + 2^extra - 1; 227..257 for symbol 284, 258 alone for 285), and no cell below 257 is touched: a length that '
                 'occurs is counted for its own symbol and gets a code', floor=29, unit='length symbols')
    mem = symrun.run(mod, 'flatten_ll')
    base = R.LEN_BASE
    extra = R.LEN_EXTRA
    for c in range(29):
        Rr.instance()
        lo = base[c]
        hi = lo + (1 << extra[c]) - 1
        if c == 27:
            hi = 257
        if c == 28:
            lo = hi = 258
        want = {254 + L: 1 for L in range(lo, hi + 1)}
        got = mem.get(257 + c, {257 + c: 1})
        Rr.check(got == want, 'igzip/flatten_ll.c:flatten_ll', 'length symbol %d (lengths %d..%d) ends up as %s of the initial histogram; expected the sum of cells %d..%d: matches of some length are counted for the wrong symbol, '
                'and a symbol whose count comes out 0 gets no code although it is used' % (257 + c, lo, hi, ' '.join('%+d*h[%d]' % (v, k) for k, v in sorted(got.items())[:8]) + (' ...' if len(got) > 8 else ''), 254 + lo, 254 + hi),
                key='T-FLATTEN-LL|%d' % (257 + c), sample='symbol %d = sum h[%d..%d]' % (257 + c, 254 + lo, 254 + hi) if c in (8, 27, 28) else None)
    low = [k for k in mem if k < 257]
    Rr.check(not low, 'igzip/flatten_ll.c:flatten_ll', 'flatten_ll writes literal / end-of-block cells %s' % low[:5], key='T-FLATTEN-LL|low')


def check_construn(rep, mod):
    """the one-shot fast path for inputs that start with a long run of 0x00 / 0xFF emits a canned dynamic header (which already contains the
    first literal), (L-1)/258 two-bit codes for "match 258 at distance 1" as zero bits, and a fix-up for the (L-1)%258 remaining bytes."""
    import constinterp, rfc1951, struct, irrules
    R = rep.rule('T-CONSTRUN', 'write_constant_compressed_stateless: (a) each canned 16-byte header is a complete, non-final RFC 1951 dynamic block header followed by exactly the literal 0x00 / 0xFF; '
                 '(b) under that header\'s code two zero bits decode to "length 258, distance 1"; (c) partitioning on r = (repeated_length-1) % 258 (the only input the fix-up depends on; all 258 values, '
                 'constant propagation through the data-independent loops), every write_bits value fits its bit count and the emitted codes decode, under the header\'s code, to literals / distance-1 matches '
                 'of total length exactly r followed by end-of-block; (d) the number of zero bits is 2*((repeated_length-1)/258)', floor=264, unit="obligations")
    f = mod.funcs.get('write_constant_compressed_stateless')
    g = mod.globals.get('repeated_char_header')
    where = 'igzip/igzip.c:write_constant_compressed_stateless'
    if f is None or g is None:
        raise AnalysisBroken('write_constant_compressed_stateless / repeated_char_header not found in the linked IR')
    rows = re.findall(r'\[5 x i32\] \[([^\]]*)\]', g)
    if len(rows) != 2:
        raise AnalysisBroken('repeated_char_header: unexpected initialiser %s' % g[:120])
    tables = []
    for k, row in enumerate(rows):
        words = [int(x.split()[-1]) & 0xffffffff for x in row.split(',')]
        data = struct.pack('<5I', *words)[:16]
        R.instance()
        try:
            bfinal, btype, ll, dl, p = rfc1951.parse_block_header(data, 128)
            codes_l, codes_d = rfc1951.canonical(ll), rfc1951.canonical(dl)
            b = rfc1951.Bits(data + b'\0' * 8)
            b.p = p
            sym = rfc1951.decode_sym(b, ll, codes_l)
            ok = bfinal == 0 and btype == 2 and sym == (0x00, 0xff)[k] and b.p == 128 and rfc1951.kraft(ll) <= 1 and rfc1951.kraft(dl) <= 1
            R.check(ok, 'igzip/repeated_char_result.h:repeated_char_header[%d]' % k, 'header %d: bfinal=%d btype=%d, first symbol %s ending at bit %d; expected a non-final dynamic header and the literal %#x ending at bit 128'
                    % (k, bfinal, btype, sym, b.p, (0, 255)[k]), key='T-CONSTRUN|hdr%d' % k, sample='header %d: dynamic, literal %#04x, 128 bits' % (k, (0, 255)[k]))
            tables.append((ll, codes_l, dl, codes_d))
        except Exception as e:        # malformed header
            R.fail('igzip/repeated_char_result.h:repeated_char_header[%d]' % k, 'header %d does not parse as an RFC 1951 dynamic block header (%s)' % (k, e), key='T-CONSTRUN|hdr%d' % k)
    if len(tables) != 2:
        return

    def decode(bits, tbl, lit):
        """-> (total run length, ended with EOB at the last bit) or raises"""
        ll, cl, dl, cd = tbl
        data = bytearray((len(bits) + 7) // 8 + 8)
        for n, x in enumerate(bits):
            data[n >> 3] |= x << (n & 7)
        b = rfc1951.Bits(bytes(data))
        total = 0
        while b.p < len(bits):
            s_ = rfc1951.decode_sym(b, ll, cl)
            if s_ == 256:
                return total, b.p == len(bits)
            if s_ < 256:
                if s_ != lit:
                    raise ValueError('literal %#x' % s_)
                total += 1
                continue
            L = rfc1951.LEN_BASE[s_ - 257] + b.get(rfc1951.LEN_EXTRA[s_ - 257])
            d = rfc1951.decode_sym(b, dl, cd)
            D = rfc1951.DIST_BASE[d] + b.get(rfc1951.DIST_EXTRA[d])
            if D != 1:
                raise ValueError('distance %d' % D)
            total += L
        return total, False
    for k, tbl in enumerate(tables):
        R.instance()
        try:
            t, _ = decode([0, 0], tbl, (0, 255)[k])
        except Exception as e:
            t = str(e)
        R.check(t == 258, 'igzip/repeated_char_result.h:repeated_char_header[%d]' % k, 'two zero bits decode to a run of %s, expected length 258 at distance 1' % t, key='T-CONSTRUN|zz%d' % k, sample='header %d: bits 00 = match(258, 1)' % k)
    # the partition variable
    part = [i for i in f.all_insns() if i.op == 'urem' and i.ops[1] == '258']
    if len(part) != 1:
        raise AnalysisBroken('write_constant_compressed_stateless: expected one `% 258`, found ' + str(len(part)))
    pv = part[0]
    Ln = f.params[1][1]

    def is_lm1(v):
        d = f.defs.get(irrules._strip(f, v))
        return d is not None and ((d.op == 'sub' and d.ops == [Ln, '1']) or (d.op == 'add' and d.ops == [Ln, '-1']))
    R.instance()
    R.check(is_lm1(pv.ops[0]), mod.where(f, pv), 'the fix-up length is not (repeated_length - 1) % 258', key='T-CONSTRUN|rem', sample='r = (repeated_length - 1) % 258')
    # (d) zero bits
    R.instance()
    muls = [i for i in f.all_insns() if i.op in ('mul', 'shl') and (i.ops[1] == ('2' if i.op == 'mul' else '1'))]
    okz = False
    zmul = None
    for m_ in muls:
        d = f.defs.get(irrules._strip(f, m_.ops[0]))
        if d is not None and d.op == 'udiv' and d.ops[1] == '258' and is_lm1(d.ops[0]):
            zmul = m_.dst
    if zmul:
        cnt = [i for i in f.all_insns() if i.op == 'store' and 'm_bit_count' in i.ops[1]]
        bits0 = [i for i in f.all_insns() if i.op == 'store' and re.search(r'm_bits\b', i.ops[1])]
        ms = [i for i in f.all_insns() if i.op == 'call' and i.callee.startswith('llvm.memset')]

        def from_z(v, op, k_):
            d = f.defs.get(irrules._strip(f, v))
            if d is None:
                return False
            if op == 'urem' and d.op == 'and' and d.ops[0] == zmul and d.ops[1] == str(k_ - 1):
                return True
            if op == 'udiv' and d.op == 'lshr' and d.ops[0] == zmul and d.ops[1] == '3':
                return True
            return d.op == op and d.ops[0] == zmul and d.ops[1] == str(k_)
        okz = (len(cnt) == 1 and from_z(cnt[0].ops[0], 'urem', 8) and len(bits0) == 1 and bits0[0].ops[0] == '0' and len(ms) == 1 and ms[0].args[1][1] == '0' and from_z(ms[0].args[2][1], 'udiv', 8))
    R.check(okz, where, 'the zero bits that stand for the 258-byte matches are not 2*((repeated_length-1)/258): whole bytes by memset(.., 0, bits/8), the rest as m_bit_count = bits % 8 with m_bits = 0',
            key='T-CONSTRUN|zerobits', sample='memset(0, rep_bits/8); m_bit_count = rep_bits % 8; rep_bits = 2*((L-1)/258)')
    for r in range(258):
        R.instance()
        seq = []
        bad = []

        def obs(i, env, ip):
            if i.op == 'call' and re.sub(r'\.\d+$', '', i.callee) == 'write_bits':
                v, c = ip.val(i.args[1][1], env), ip.val(i.args[2][1], env)
                if v == constinterp.TOP or c == constinterp.TOP:
                    bad.append('a write_bits argument depends on more than r (%s)' % mod.where(f, i))
                else:
                    v &= (1 << 64) - 1
                    if v >> c:
                        bad.append('write_bits(%#x, %d) at %s: the value does not fit in %d bits and corrupts the following code' % (v, c, mod.where(f, i), c))
                    seq.append((v, c))
        constinterp.Interp(mod, f, obs, value_hook=lambda i: r if i is pv else None).run()
        msg = None
        if bad:
            msg = bad[0]
        else:
            bits = []
            for v, c in seq:
                bits += [(v >> n) & 1 for n in range(c)]
            for k, tbl in enumerate(tables):
                try:
                    t, eob = decode(bits, tbl, (0, 255)[k])
                    if t != r or not eob:
                        msg = 'the fix-up codes %s decode (header %d) to a run of %d %s, expected exactly %d bytes then end-of-block' % (['%#x/%d' % x for x in seq], k, t, 'ending in end-of-block' if eob else 'WITHOUT a final end-of-block', r)
                except Exception as e:
                    msg = 'the fix-up codes %s do not decode under header %d (%s)' % (['%#x/%d' % x for x in seq], k, e)
                if msg:
                    break
        R.check(msg is None, where, 'r = %d (e.g. a run of %d bytes): %s' % (r, r + 1 + 258 * 16, msg), key='T-CONSTRUN|r%d' % r, sample='r = 257: %s' % ['%#x/%d' % x for x in seq] if r == 257 else None)


def check_df_lane_limits(rep):
    """the vector ICF encoders pack two tokens per 64-bit lane and OR the result onto at most 7 bits left over from what precedes it (the bit buffer for the
    first lane, the lower 128-bit half for the first lane of the upper half); a token pair that is wider than the lane loses its top bits.  The fast path is
    taken only if every token is within the per-lane limits of the max_write_d table, so the table has to satisfy the lane arithmetic."""
    RR = rep.rule('T-DF-LANE-LIMIT', 'encode_deflate_icf_04 / _06: the per-lane token-width limits (max_write_d, read from the assembled objects) fit the 64-bit lanes: for each pair of tokens sharing a lane '
                  'limit[2k] + limit[2k+1] <= 64, and <= 64 - 7 for the first lane of each 128-bit half, which is shifted by up to 7 pending bits when merged', floor=2, unit='encoders')
    units = asmdb.units('default')
    for un, width in (('igzip/encode_df_04.asm', 8), ('igzip/encode_df_06.asm', 1)):
        u = units.get(un)
        if u is None:
            if un.endswith('_06.asm') and os.environ.get('VERIF_SUBRUN'):
                RR.notes.append(un + ' is not part of this assembler feature level')
                continue
            raise AnalysisBroken(un + ' not assembled')
        RR.instance()
        b = u.elf.sym_extent('max_write_d') if 'max_write_d' in u.elf.syms else None
        if b is None or len(b) < 4 * width:
            if un.endswith('_06.asm') and os.environ.get('VERIF_SUBRUN'):
                RR.notes.append(un + ' is empty at this assembler feature level')
                RR.ok()
                continue
            raise AnalysisBroken(un + ': max_write_d not found')
        lim = list(struct.unpack('<%dI' % width, b[:4 * width]))
        if width == 1:
            lim = lim * 8        # broadcast to every lane
        bad = []
        for k in range(0, len(lim), 2):
            slack = 7 if (k % 4) == 0 else 0
            if lim[k] + lim[k + 1] + slack > 64:
                bad.append('tokens %d,%d: %d + %d%s > 64' % (k, k + 1, lim[k], lim[k + 1], ' + 7 pending bits' if slack else ''))
        RR.check(not bad, un + ':max_write_d', 'per-lane limits %s do not fit the lanes (%s): a token pair at the limit loses its most significant bits on the fast path' % (lim[:8], '; '.join(bad)),
                 key='T-DF-LANE-LIMIT|' + un, sample='%s: %s' % (un, lim[:8]))


def main(tier):
    rep = Report('C01', tier, level='other')
    rep.undecided = UNDECIDED
    rep.explanation = ('Exact evaluation of the encoder\'s constant tables of the current tree against an independent RFC 1951 implementation in the checker '
                       '(canonical codes from the tables\' own stored headers; every literal/length/distance cell), in all three documented window configurations '
                       '(default, IGZIP_HIST_SIZE=8192, LONGER_HUFFTABLE) that no test builds; plus a mirror check that the assembler and the C compiler agree on every '
                       'record offset and every same-named constant of the deflate data structures. These are necessary conditions of C01 that hold or fail for all inputs at once; '
                       'the behavioural statement (output decodes to input) is not decided.')
    rep.trusted = ['clang 14 / nasm constant evaluation', 'checker RFC 1951 reference tools/rfc1951.py']
    rep.analysed = dict(configurations=CONFIGS, units=['igzip/hufftables_c.c', 'igzip/huff_codes.c', 'igzip/rfc1951_lookup.asm', 'igzip/data_struct2.asm', 'igzip/lz0a_const.asm', 'igzip/options.asm', 'include/igzip_lib.h'])
    rep.attempt(check_rfc_tables, rep)
    rep.attempt(check_rfc_copies, rep)
    rep.attempt(check_cmp_units, rep)
    import c18, llir
    Ku, _d = mirror.c_values('default', ['huff_codes.h', 'bitbuf2.h', 'igzip_lib.h'], [(n, n) for n in ('MAX_BITBUF_BIT_WRITE', 'DIST_LEN', 'LIT_LEN')], 'c01_useable')
    rep.attempt(c18.check_useable_schedule, rep, llir.library('default'), Ku)
    rep.attempt(check_construn, rep, llir.library('default'))
    rep.attempt(check_type0_split, rep, llir.library('default'))
    rep.attempt(check_flatten_ll, rep, llir.library('default'))
    rep.attempt(check_df_lane_limits, rep)
    import stridecover
    rep.attempt(stridecover.check, rep, 'DEFLATE', {'igzip_deflate', 'igzip_histogram', 'igzip_set_long', 'igzip_encode_df', 'igzip_hash'}, 100, lookahead=True)
    import c04
    import c07
    rep.attempt(c07.check_hist_keep, rep, llir.library('default'))   # matches against history that was not kept decode to other bytes
    import c11
    rep.attempt(c11.check_adler_bam1, rep, llir.library('default'))     # the zlib trailer: conversion of the stored checksum for every value
    rep.attempt(c04.check_adler, rep)          # zlib trailers: "accepting the trailer" rests on the Adler-32 kernels' constants and overflow schedule
    for c in CONFIGS:
        lay = hufftables_layout(c)
        unpack = unpack_consts(c)
        e = Elf(cbuild.objs(c, ['igzip/hufftables_c.c'])['igzip/hufftables_c.c'])
        check_hufftables(rep, c, lay, unpack, e)
        check_static_icf(rep, c)
        check_mirror(rep, c)
        check_tmp_states(rep, c)
        check_wrapper_consts(rep, c)
    return rep.finish()
