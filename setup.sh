#!/bin/sh
# Offline setup: everything is Python 3 stdlib + tools already installed; build the C++ IR helper if present.
set -e
cd "$(dirname "$0")"
mkdir -p build evidence
for t in nasm objdump clang llvm-link-14 opt-14 python3; do
  command -v $t >/dev/null || { echo "missing tool: $t"; exit 1; }
done
if [ -f tools/irtool.cc ]; then
  clang++ $(llvm-config-14 --cxxflags) -fno-rtti -O1 tools/irtool.cc -o build/irtool /usr/lib/llvm-14/lib/libLLVM-14.so
fi
echo setup ok
