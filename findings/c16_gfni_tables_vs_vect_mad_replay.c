/* Replay of a KNOWN FINDING (not repaired): property=C16 D-AGREE-TABLEFMT gf_vect_dot_prod / gf_vect_mad vs ec_init_tables on GFNI hosts.
 * Written by a defect-hunting sub-agent (H4).  build: gcc -O1 -I<repo>/include c16_gfni_tables_vs_vect_mad_replay.c <libisal.a> -o replay */
/*
 * finding_1: tables produced by ec_init_tables() are not understood by the other
 * documented consumers of "tables generated ... in ec_init_tables()" on a CPU with GFNI.
 *
 * Every call below is exactly what include/erasure_code.h documents:
 *   - gf_vect_mad():          "gftbls Pointer to array of input tables generated from coding
 *                              coefficients in ec_init_tables(). Must be of size 32*vec."
 *   - ec_encode_data_base():  "Baseline version of ec_encode_data() with same parameters."
 *   - ec_encode_data_sse/avx/avx2(): "Arch specific version of ec_encode_data() with same
 *                              parameters."  (ec_encode_data: "gftbls Pointer to array of input
 *                              tables generated from coding coefficients in ec_init_tables()")
 *   - ec_encode_data_update_base/sse/avx/avx2(): ditto for ec_encode_data_update().
 *   - gf_2vect_mad_sse():     same gftbls sentence as gf_vect_mad().
 *
 * Expected: all of them produce the GF(2^8)/0x11D linear combination given by the
 * coefficients (computed here bit by bit, independent of the library).
 * Exit status 1 if any of them produces different bytes.
 */
#include <stdio.h>
#include <stdlib.h>
#include <string.h>
#include "erasure_code.h"

enum { K = 5, R = 2, LEN = 256 };

static unsigned char
gmul(unsigned a, unsigned b)
{
        unsigned r = 0;
        while (b) {
                if (b & 1)
                        r ^= a;
                a <<= 1;
                if (a & 0x100)
                        a ^= 0x11D;
                b >>= 1;
        }
        return (unsigned char) r;
}

static int bad;
static void
check(const char *what, unsigned char got[R][LEN], unsigned char ref[R][LEN], int rows)
{
        int diff = 0, fr = 0, fi = 0;
        for (int r = rows - 1; r >= 0; r--)
                for (int i = LEN - 1; i >= 0; i--)
                        if (got[r][i] != ref[r][i]) {
                                diff++;
                                fr = r;
                                fi = i;
                        }
        printf("%-58s %s", what, diff ? "WRONG" : "ok\n");
        if (diff) {
                printf(" (%d of %d bytes differ, first: row %d byte %d = %02x, expected %02x)\n",
                       diff, rows * LEN, fr, fi, got[fr][fi], ref[fr][fi]);
                bad = 1;
        }
}

int
main(void)
{
        static unsigned char coef[R * K], tbl[32 * K * R];
        static unsigned char src[K][LEN], ref[R][LEN], out[R][LEN];
        unsigned char *sp[K], *dp[R];

        srand(1);
        for (int i = 0; i < R * K; i++)
                coef[i] = (unsigned char) (rand() | 2);
        for (int j = 0; j < K; j++) {
                sp[j] = src[j];
                for (int i = 0; i < LEN; i++)
                        src[j][i] = (unsigned char) rand();
        }
        for (int r = 0; r < R; r++) {
                dp[r] = out[r];
                for (int i = 0; i < LEN; i++) {
                        unsigned char s = 0;
                        for (int j = 0; j < K; j++)
                                s ^= gmul(coef[r * K + j], src[j][i]);
                        ref[r][i] = s;
                }
        }

        ec_init_tables(K, R, coef, tbl); /* the documented way to build gftbls */

        memset(out, 0, sizeof out);
        ec_encode_data(LEN, K, R, tbl, sp, dp);
        check("ec_encode_data(tables from ec_init_tables)", out, ref, R);

        memset(out, 0, sizeof out);
        for (int j = 0; j < K; j++)
                ec_encode_data_update(LEN, K, R, j, tbl, src[j], dp);
        check("ec_encode_data_update x K", out, ref, R);

        memset(out, 0, sizeof out);
        ec_encode_data_base(LEN, K, R, tbl, sp, dp);
        check("ec_encode_data_base", out, ref, R);

        memset(out, 0, sizeof out);
        ec_encode_data_sse(LEN, K, R, tbl, sp, dp);
        check("ec_encode_data_sse", out, ref, R);

        memset(out, 0, sizeof out);
        ec_encode_data_avx2(LEN, K, R, tbl, sp, dp);
        check("ec_encode_data_avx2", out, ref, R);

        memset(out, 0, sizeof out);
        for (int j = 0; j < K; j++)
                ec_encode_data_update_base(LEN, K, R, j, tbl, src[j], dp);
        check("ec_encode_data_update_base x K", out, ref, R);

        memset(out, 0, sizeof out);
        for (int j = 0; j < K; j++)
                ec_encode_data_update_avx(LEN, K, R, j, tbl, src[j], dp);
        check("ec_encode_data_update_avx x K", out, ref, R);

        /* gf_vect_mad: one output row at a time, table block of row r is tbl + r*32*K */
        memset(out, 0, sizeof out);
        for (int r = 0; r < R; r++)
                for (int j = 0; j < K; j++)
                        gf_vect_mad(LEN, K, j, tbl + r * 32 * K, src[j], out[r]);
        check("gf_vect_mad x K per row (len 256 >= 64 as documented)", out, ref, R);

        memset(out, 0, sizeof out);
        for (int j = 0; j < K; j++)
                gf_2vect_mad_sse(LEN, K, j, tbl, src[j], dp);
        check("gf_2vect_mad_sse x K", out, ref, R);

        memset(out, 0, sizeof out);
        gf_vect_dot_prod(LEN, K, tbl, sp, out[0]);
        check("gf_vect_dot_prod (row 0)", out, ref, 1);

        if (bad)
                printf("\nDEFECT: consumers documented to take ec_init_tables() output disagree "
                       "(this CPU makes ec_init_tables() emit the 8-byte GFNI format).\n");
        else
                printf("\nno mismatch on this CPU (needs GFNI+AVX2 or GFNI+AVX512 to show)\n");
        return bad;
}
