/* Replay of the out-of-bounds read of mem_zero_detect_avx2 / mem_zero_detect_avx512 (and therefore of the public
 * isal_zero_detect on AVX2 / AVX-512 hosts) - C05 "reads only inside the source range", reported by C20 L-ZERO-COMBINE.
 * The block loops combine "this was the last block" (a 0/1 flag) with the mask of non-zero byte lanes by ADDITION and
 * continue while the sum is zero.  When the last block has a non-zero byte in every lane the mask is all ones and
 * 1 + 0xFFFF...F wraps to 0: the loop runs on past the end of the buffer.
 * Buffer: `zeros` zero bytes followed by non-zero bytes up to n, placed so that it ends at a PROT_NONE page.
 * Build: tools/build_with_lib.py findings/c05_memzero_wrap_replay.c -o replay ; needs an AVX-512 (or AVX2) host. */
#include <stdio.h>
#include <stdlib.h>
#include <string.h>
#include <signal.h>
#include <setjmp.h>
#include <sys/mman.h>
#include <unistd.h>
extern int mem_zero_detect_avx2(void *buf, size_t n);
extern int mem_zero_detect_avx512(void *buf, size_t n);
extern int mem_zero_detect_base(void *buf, size_t n);
extern int isal_zero_detect(void *buf, size_t n);
static sigjmp_buf jb;
static void on_segv(int s) { siglongjmp(jb, 1); }
static int run(const char *name, int (*fn)(void *, size_t), size_t n, size_t zeros, int val) {
        long pg = sysconf(_SC_PAGESIZE);
        unsigned char *p = mmap(0, 2 * pg, PROT_READ | PROT_WRITE, MAP_PRIVATE | MAP_ANONYMOUS, -1, 0), *b;
        mprotect(p + pg, pg, PROT_NONE);
        b = p + pg - n;
        memset(b, 0, n);
        memset(b + zeros, val, n - zeros);
        if (sigsetjmp(jb, 1)) { printf("%-24s n=%zu (%zu zero bytes, then 0x%02x): SIGSEGV - read past the end of the buffer\n", name, n, zeros, val); return 1; }
        printf("%-24s n=%zu (%zu zero bytes, then 0x%02x): returns %d\n", name, n, zeros, val, fn(b, n));
        return 0;
}
int main(void) {
        int bad = 0;
        signal(SIGSEGV, on_segv);
        bad |= run("mem_zero_detect_base", mem_zero_detect_base, 256, 128, 1);
        bad |= run("mem_zero_detect_avx2", mem_zero_detect_avx2, 256, 128, 1);
        bad |= run("mem_zero_detect_avx2", mem_zero_detect_avx2, 32, 16, 0xff);
        bad |= run("mem_zero_detect_avx512", mem_zero_detect_avx512, 256, 128, 1);
        bad |= run("isal_zero_detect", isal_zero_detect, 256, 128, 1);
        return bad;
}
