/* Replay for the fix of the invalid-distance-symbol exit of the asm inflate kernels; written by a defect-hunting sub-agent (H2).
 * build: gcc -O1 -D_GNU_SOURCE -I<repo>/include <this> <libisal.a> -o replay */
/*
 * ISA-L igzip: the assembly inflate kernels decode_huffman_code_block_stateless_01/_04
 * (the ones the dispatcher picks on any SSE4/AVX2 x86-64 host) report output bytes that were
 * never decoded when a block contains an invalid distance symbol and the symbol is met in
 * the kernel's fast main loop.
 *
 * Stream B below: one fixed-Huffman block: 40 literals 'A', then length symbol 285
 * (length 258) followed by the 5-bit distance code 30, which RFC 1951 reserves ("will never
 * actually occur in the compressed data").  16 padding bytes follow, so the kernel is in
 * its main loop (>= 8 input bytes and >= 274 output bytes left) when it meets the symbol.
 *
 * Expected (delivered by the portable kernel ..._base, and by the assembly kernels when the
 * same bytes are supplied one per call): ISAL_INVALID_SYMBOL after 40 bytes of output.
 * Observed: ISAL_INVALID_SYMBOL with next_out/avail_out/total_out advanced by 40 + 258
 * bytes.  The extra 258 bytes were never stored.  With isal_inflate() they are whatever the
 * state's internal buffer held before: after isal_inflate_reset() that is the plain text
 * of the PREVIOUS stream.
 */
#include <stdio.h>
#include <stdlib.h>
#include <string.h>
#include <stdint.h>
#include "igzip_lib.h"

static uint8_t strm[256];
static size_t slen;
static uint64_t bb;
static int bc;
static void put(uint32_t v, int n) /* LSB first */
{
        bb |= (uint64_t) v << bc;
        bc += n;
        while (bc >= 8) {
                strm[slen++] = bb & 0xff;
                bb >>= 8;
                bc -= 8;
        }
}
static void huff(uint32_t code, int len) /* Huffman codes are packed MSB first */
{
        for (int i = len - 1; i >= 0; i--)
                put((code >> i) & 1, 1);
}

#define NLIT 40

int main(void)
{
        int fail = 0;
        put(1, 1); /* BFINAL */
        put(1, 2); /* BTYPE = 01, fixed Huffman */
        for (int i = 0; i < NLIT; i++)
                huff(0x30 + 'A', 8); /* literal 'A' */
        huff(0xC0 + (285 - 280), 8); /* length symbol 285: length 258, no extra bits */
        huff(30, 5);                 /* distance symbol 30: invalid */
        huff(0, 7);                  /* end of block (never reached) */
        while (bc)
                put(0, 1);
        for (int i = 0; i < 16; i++)
                strm[slen++] = 0; /* padding: keeps the kernel in its main loop */

        static uint8_t out[4096];
        struct inflate_state *st = malloc(sizeof(*st));

        /* 1. one-shot */
        memset(out, 0xC3, sizeof(out));
        isal_inflate_init(st);
        st->next_in = strm;
        st->avail_in = slen;
        st->next_out = out;
        st->avail_out = sizeof(out);
        int ret = isal_inflate_stateless(st);
        size_t produced = st->next_out - out;
        printf("isal_inflate_stateless      : ret=%d next_out-out=%zu total_out=%u avail_out=%u\n", ret,
               produced, st->total_out, st->avail_out);
        size_t untouched = 0;
        for (size_t i = NLIT; i < produced; i++)
                untouched += out[i] == 0xC3;
        if (ret != ISAL_INVALID_SYMBOL) {
                printf("  unexpected status\n");
                fail = 1;
        }
        if (produced != NLIT) {
                printf("  DEFECT: %zu bytes reported as output, only %d were decoded; %zu of the extra "
                       "bytes still hold the caller's 0xC3 fill pattern\n",
                       produced, NLIT, untouched);
                fail = 1;
        }

        /* 2. isal_inflate, whole input in one call, versus one input byte per call */
        memset(out, 0xC3, sizeof(out));
        isal_inflate_init(st);
        st->next_in = strm;
        st->avail_in = slen;
        st->next_out = out;
        st->avail_out = sizeof(out);
        ret = isal_inflate(st);
        size_t prod_all = st->next_out - out;
        printf("isal_inflate, one call      : ret=%d produced=%zu total_out=%u\n", ret, prod_all,
               st->total_out);

        memset(out, 0xC3, sizeof(out));
        isal_inflate_init(st);
        st->next_out = out;
        st->avail_out = sizeof(out);
        for (size_t i = 0; i < slen; i++) {
                st->next_in = &strm[i];
                st->avail_in = 1;
                ret = isal_inflate(st);
                if (ret)
                        break;
        }
        size_t prod_1 = st->next_out - out;
        printf("isal_inflate, 1 byte/call   : ret=%d produced=%zu total_out=%u\n", ret, prod_1,
               st->total_out);
        if (prod_all != prod_1) {
                printf("  DEFECT: equivalent call schedules deliver %zu vs %zu bytes for the same "
                       "stream\n",
                       prod_all, prod_1);
                fail = 1;
        }

        /* 3. what the phantom bytes are: decode a good stream first, reset, decode stream B */
        static uint8_t good[5 + 400];
        good[0] = 1; /* BFINAL=1, stored */
        good[1] = 400 & 0xff;
        good[2] = 400 >> 8;
        good[3] = ~good[1];
        good[4] = ~good[2];
        for (int i = 0; i < 400; i++)
                good[5 + i] = "TOP-SECRET-"[i % 11];
        isal_inflate_init(st);
        st->next_in = good;
        st->avail_in = sizeof(good);
        st->next_out = out;
        st->avail_out = sizeof(out);
        ret = isal_inflate(st);
        printf("previous stream             : ret=%d, %ld bytes, state %s\n", ret, (long) (st->next_out - out),
               st->block_state == ISAL_BLOCK_FINISH ? "FINISH" : "?");
        isal_inflate_reset(st);
        memset(out, 0xC3, sizeof(out));
        st->next_in = strm;
        st->avail_in = slen;
        st->next_out = out;
        st->avail_out = sizeof(out);
        ret = isal_inflate(st);
        produced = st->next_out - out;
        printf("after isal_inflate_reset    : ret=%d produced=%zu: \"%.60s...\"\n", ret, produced, out);
        if (produced > NLIT && memmem(out + NLIT, produced - NLIT, "TOP-SECRET-", 11)) {
                printf("  DEFECT: the bytes past the %d decoded ones are plain text of the previous "
                       "stream\n",
                       NLIT);
                fail = 1;
        }

        printf("%s\n", fail ? "FAIL: defect present" : "PASS: defect not present");
        free(st);
        return fail;
}
