/* Replay for the defect fixed in /repo by "fix: igzip: keep match history until a requested FULL_FLUSH has actually happened".
 *
 * isal_deflate() decided in get_hist_size() that no history has to be kept for the next call as soon as all input was consumed and
 * stream->flush == FULL_FLUSH - i.e. on the REQUEST of a full flush.  The flush itself only happens once the pending block has been
 * written, which needs output space.  If the caller refills the input while that output is still pending (or changes the flush mode),
 * the flush is superseded (flush_icf_block / the level-0 body continue with the new input, has_hist stays IGZIP_HIST) and the new
 * data is matched against a history that was never copied into state->buffer: the matcher reads up to 32 KiB in front of
 * state->buffer (other fields of the stream, then whatever lies before the isal_zstream object) and emits matches whose distance
 * reaches back to data the decoder sees differently.
 *
 * Here the stream object is preceded by a zero-filled pad so that the outcome is deterministic: the 2000 zero bytes of the second
 * chunk are found "in the history" (really: in the pad), encoded as a match that reaches back into the 0xA3 run of the first chunk,
 * and the stream decodes to 0xA3 bytes where the input had zeros.
 *
 * build: gcc -I<repo>/include c07_fullflush_pending_history_replay.c <libisal.a> -o replay ; exit status 1 = defect present */
#include <stdio.h>
#include <string.h>
#include <stdint.h>
#include "igzip_lib.h"

static struct {
        uint8_t pad[65536];
        struct isal_zstream s;
} z;
static uint8_t in[4000], comp[65536], back[8192], lvl[ISAL_DEF_LVL3_DEFAULT];

int
main(void)
{
        struct isal_zstream *s = &z.s;
        struct inflate_state st;
        int r, calls = 0;

        memset(in, 0xA3, 2000);
        memset(in + 2000, 0x00, 2000);

        isal_deflate_init(s);
        s->level = 3;
        s->level_buf = lvl;
        s->level_buf_size = sizeof(lvl);
        s->flush = FULL_FLUSH;

        /* call 1: 2000 bytes, full flush requested, room for one byte of output: the block stays pending */
        s->next_in = in;
        s->avail_in = 2000;
        s->next_out = comp;
        s->avail_out = 1;
        r = isal_deflate(s);
        printf("call 1: ret %d state %d avail_in %u total_out %u\n", r, s->internal_state.state, s->avail_in, s->total_out);

        /* call 2: the caller refills the input while output is still pending */
        s->next_in = in + 2000;
        s->avail_in = 2000;
        s->avail_out = 1;
        r = isal_deflate(s);
        printf("call 2: ret %d state %d avail_in %u total_out %u\n", r, s->internal_state.state, s->avail_in, s->total_out);

        /* now drain with plenty of output space */
        s->end_of_stream = 1;
        while (s->internal_state.state != ZSTATE_END && calls++ < 100) {
                s->avail_out = sizeof(comp) - s->total_out;
                r = isal_deflate(s);
                if (r != COMP_OK)
                        break;
        }
        printf("deflate: ret %d state %d total_in %u total_out %u\n", r, s->internal_state.state, s->total_in, s->total_out);

        isal_inflate_init(&st);
        st.next_in = comp;
        st.avail_in = s->total_out;
        st.next_out = back;
        st.avail_out = sizeof(back);
        r = isal_inflate(&st);
        printf("inflate: ret %d total_out %u\n", r, st.total_out);
        if (r != ISAL_DECOMP_OK || st.total_out != sizeof(in) || memcmp(back, in, sizeof(in))) {
                size_t j = 0;
                while (j < sizeof(in) && back[j] == in[j])
                        j++;
                printf("DEFECT: the stream does not decode to the input (first difference at byte %zu: 0x%02x instead of 0x%02x)\n", j,
                       back[j], in[j]);
                return 1;
        }
        printf("ok: round trip exact\n");
        return 0;
}
