/* Replay of the out-of-bounds access of gf_vect_mul_sse / gf_vect_mul_avx for len == 0 (C05 "for every length
 * including 0"; C13 constant-multiply routine).  The kernels test only len % 32 == 0 and then enter a
 * do-while loop, so with len == 0 they read 32 bytes at src and write 32 bytes at dest (and return 0).
 * gf_vect_mul_base touches nothing for len == 0.  dest is placed directly before a PROT_NONE page and, in a second
 * run, inside a canary area.  Build: tools/build_with_lib.py findings/c05_gfvectmul_len0_replay.c */
#include <stdio.h>
#include <string.h>
#include <signal.h>
#include <setjmp.h>
#include <sys/mman.h>
#include <unistd.h>
extern int gf_vect_mul_sse(int len, unsigned char *gftbl, void *src, void *dest);
extern int gf_vect_mul_avx(int len, unsigned char *gftbl, void *src, void *dest);
extern int gf_vect_mul_base(int len, unsigned char *a, unsigned char *src, unsigned char *dest);
extern void gf_vect_mul_init(unsigned char c, unsigned char *gftbl);
static sigjmp_buf jb;
static void on_segv(int s) { siglongjmp(jb, 1); }
int main(void) {
        long pg = sysconf(_SC_PAGESIZE);
        unsigned char tbl[32], *p, canary[96] __attribute__((aligned(32)));
        static unsigned char src[64] __attribute__((aligned(32)));
        int bad = 0, v, r;
        gf_vect_mul_init(7, tbl);
        memset(src, 0x55, sizeof src);
        for (v = 0; v < 3; v++) {
                memset(canary, 0xEE, sizeof canary);
                r = v == 0 ? gf_vect_mul_base(0, tbl, src, canary + 32) : v == 1 ? gf_vect_mul_sse(0, tbl, src, canary + 32) : gf_vect_mul_avx(0, tbl, src, canary + 32);
                int touched = 0, i;
                for (i = 0; i < 96; i++) touched += canary[i] != 0xEE;
                printf("%s(len=0): returns %d, %d bytes of dest modified\n", v == 0 ? "gf_vect_mul_base" : v == 1 ? "gf_vect_mul_sse" : "gf_vect_mul_avx", r, touched);
                if (touched) bad = 1;
        }
        p = mmap(0, 2 * pg, PROT_READ | PROT_WRITE, MAP_PRIVATE | MAP_ANONYMOUS, -1, 0);
        mprotect(p + pg, pg, PROT_NONE);
        signal(SIGSEGV, on_segv);
        if (sigsetjmp(jb, 1)) { printf("gf_vect_mul_sse(len=0) with dest at the end of its mapping: SIGSEGV\n"); return 1; }
        gf_vect_mul_sse(0, tbl, src, p + pg);
        printf("no fault\n");
        return bad;
}
