#include <stdio.h>
#include <string.h>
#include <stdlib.h>
#include "igzip_lib.h"
int main(void){
  static unsigned char in[40000], comp[80000], out[40000];
  const char *w[]={"the ","quick ","brown ","fox ","jumps ","over ","lazy ","dog ","and ","runs "};
  size_t n=0; unsigned s=12345;
  while(n<sizeof(in)-8){ s=s*1103515245+12345; const char*p=w[(s>>16)%10]; size_t l=strlen(p); memcpy(in+n,p,l); n+=l; }
  struct isal_zstream z; isal_deflate_init(&z); z.next_in=in; z.avail_in=n; z.end_of_stream=1; z.flush=NO_FLUSH; z.next_out=comp; z.avail_out=sizeof comp;
  int r=isal_deflate(&z); size_t clen=z.total_out;
  struct inflate_state st; isal_inflate_init(&st); st.next_in=comp; st.avail_in=clen; st.next_out=out; st.avail_out=sizeof out;
  int r2=isal_inflate(&st);
  printf("HIST=%d deflate=%d clen=%zu inflate=%d total_out=%u match=%d\n", IGZIP_HIST_SIZE, r, clen, r2, st.total_out, st.total_out==n && !memcmp(in,out,n));
  return !(r2==0 && st.total_out==n && !memcmp(in,out,n));
}
