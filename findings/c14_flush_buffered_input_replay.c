/* Replay for the fix "flush reported complete while input of the same call is still buffered"; written by a defect-hunting sub-agent (H8; the same defect was reported by H1 and by the seeding agent C14m); needs -lz. */
/* finding 2: a FULL_FLUSH (or SYNC_FLUSH) call returns with avail_in == 0, avail_out != 0 and
 * internal_state.state == ZSTATE_NEW_HDR - the documented "flush is complete" condition - although
 * buffered input has not been compressed and the requested flush marker has not been written.
 * Happens when an earlier SYNC_FLUSH ran out of output space (left pending in the 16 byte temporary
 * output buffer) and the caller went on with small NO_FLUSH calls. */
#include <stdio.h>
#include <stdlib.h>
#include <string.h>
#include <stdint.h>
#include <zlib.h>
#include "igzip_lib.h"

static uint8_t in[4096], out[16384], dec[8192];
static uint8_t lb[ISAL_DEF_LVL3_DEFAULT];

static int
call(struct isal_zstream *st, uint32_t *ipos, uint32_t n, int flush, uint32_t ao)
{
        st->next_in = in + *ipos;
        st->avail_in = n;
        st->flush = flush;
        st->end_of_stream = 0;
        st->avail_out = ao; /* next_out simply continues */
        int rc = isal_deflate(st);
        *ipos += n - st->avail_in;
        return rc;
}

static int
try(int level, uint32_t small_ao, int verbose)
{
        struct isal_zstream st;
        uint32_t ipos = 0;
        isal_deflate_init(&st);
        st.level = level;
        st.level_buf = lb;
        st.level_buf_size = level == 1   ? ISAL_DEF_LVL1_DEFAULT
                            : level == 2 ? ISAL_DEF_LVL2_DEFAULT
                            : level == 3 ? ISAL_DEF_LVL3_DEFAULT
                                         : 0;
        st.next_out = out;
        call(&st, &ipos, 1000, SYNC_FLUSH, 8000); /* completes */
        if (st.avail_in || !st.avail_out || st.internal_state.state != ZSTATE_NEW_HDR)
                return -1;
        call(&st, &ipos, 8, SYNC_FLUSH, small_ao); /* not enough room: flush stays pending */
        if (st.avail_out != 0 || st.avail_in != 0)
                return -1;
        call(&st, &ipos, 39, NO_FLUSH, 5);
        call(&st, &ipos, 37, NO_FLUSH, 7000);
        call(&st, &ipos, 44, NO_FLUSH, 7000);
        if (st.avail_in)
                return -1;
        int rc = call(&st, &ipos, 5, FULL_FLUSH, 2000);
        if (rc != COMP_OK)
                return -1;
        /* documented completion test (igzip_lib.h, isal_deflate): "Checking that the out_buffer is
         * not empty or that internal_state.state = ZSTATE_NEW_HDR is sufficient to guarantee all
         * input has been flushed." */
        int complete = st.avail_in == 0 &&
                       (st.avail_out != 0 || st.internal_state.state == ZSTATE_NEW_HDR);
        if (!complete)
                return 0;
        /* decode everything produced so far */
        z_stream z;
        memset(&z, 0, sizeof z);
        inflateInit2(&z, -15);
        z.next_in = out;
        z.avail_in = st.total_out;
        z.next_out = dec;
        z.avail_out = sizeof dec;
        int zr = inflate(&z, Z_SYNC_FLUSH);
        uint32_t got = z.total_out;
        inflateEnd(&z);
        int bad = got != ipos || memcmp(dec, in, got);
        if (bad || verbose)
                printf("level %d, avail_out=%u for the 2nd SYNC_FLUSH: after FULL_FLUSH call: "
                       "avail_in=%u avail_out=%u state=%d total_in=%u total_out=%u; "
                       "buffered-but-uncompressed=%u; zlib(rc=%d) recovers %u of %u bytes%s\n",
                       level, small_ao, st.avail_in, st.avail_out, st.internal_state.state,
                       st.total_in, st.total_out,
                       st.internal_state.b_bytes_valid - st.internal_state.b_bytes_processed, zr,
                       got, ipos, bad ? "  <-- flush reported complete but data missing" : "");
        return bad;
}

int
main(void)
{
        uint64_t x = 88172645463325252ULL;
        for (size_t i = 0; i < sizeof in; i++) {
                x ^= x << 13;
                x ^= x >> 7;
                x ^= x << 17;
                in[i] = "abcdefghijklmnop"[(x >> 20) & 15];
        }
        int nbad = 0;
        for (int level = 0; level <= 3; level++)
                for (uint32_t ao = 1; ao <= 14; ao++)
                        if (try(level, ao, 0) > 0)
                                nbad++;
        if (nbad)
                printf("DEFECT: %d parameter combinations report a completed flush with input still "
                       "buffered\n",
                       nbad);
        else
                printf("ok\n");
        return nbad ? 1 : 0;
}
