/* Replay of the zlib DICTID byte-order defect (C19, rule R-HDR-ENDIAN).
 * RFC 1950 2.2: DICTID is stored most-significant byte first (like the Adler-32 trailer).
 * build: python3 /verif/tools/build_with_lib.py c19_dictid_replay.c -o r && ./r */
#include <stdio.h>
#include <string.h>
#include <stdint.h>
#include "igzip_lib.h"
int main(void) {
        uint8_t out[16] = { 0 };
        struct isal_zstream s;
        struct isal_zlib_header z;
        int bad = 0;
        isal_deflate_init(&s);
        s.next_out = out; s.avail_out = sizeof(out);
        isal_zlib_header_init(&z);
        z.info = 7; z.level = 0; z.dict_flag = 1; z.dict_id = 0x01020304;
        uint32_t r = isal_write_zlib_header(&s, &z);
        printf("writer: ret=%u bytes: %02x %02x | %02x %02x %02x %02x   (RFC 1950: .. .. | 01 02 03 04)\n", r, out[0], out[1], out[2], out[3], out[4], out[5]);
        if (!(out[2] == 1 && out[3] == 2 && out[4] == 3 && out[5] == 4)) bad |= 1;
        /* a header as zlib itself would produce it for dictid 0x01020304 */
        uint8_t in[6] = { 0x78, 0x20, 0x01, 0x02, 0x03, 0x04 };
        in[1] += 31 - ((0x78 * 256 + in[1]) % 31);
        struct inflate_state st;
        struct isal_zlib_header zr;
        isal_inflate_init(&st);
        st.next_in = in; st.avail_in = sizeof(in);
        isal_zlib_header_init(&zr);
        int rr = isal_read_zlib_header(&st, &zr);
        printf("reader: ret=%d dict_flag=%u dict_id=%#010x   (RFC 1950: 0x01020304)\n", rr, zr.dict_flag, zr.dict_id);
        if (zr.dict_id != 0x01020304) bad |= 2;
        printf(bad ? "FAIL (%d)\n" : "PASS\n", bad);
        return bad;
}
