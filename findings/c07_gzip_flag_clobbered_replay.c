/* Replay for the fix "isal_deflate at level 1-3 left gzip_flag switched to the _NO_HDR form"; written by a defect-hunting sub-agent (H1); links zlib as the decoder. */
/* finding 3: isal_deflate() at levels 1-3 overwrites the caller's stream->gzip_flag
 * (IGZIP_GZIP -> IGZIP_GZIP_NO_HDR, IGZIP_ZLIB -> IGZIP_ZLIB_NO_HDR) whenever the first block
 * header is produced with >= 328 bytes of output space. isal_deflate_reset() is documented
 * to keep the "compression wrapper (like gzip)", so the next stream compressed with the same
 * isal_zstream silently comes out WITHOUT gzip/zlib header and cannot be decoded.
 * With a small first output buffer (or level 0) the flag survives: the result depends on the
 * call schedule.
 * exit status 1 when the defect shows.
 */
#include <stdio.h>
#include <string.h>
#include <igzip_lib.h>
#include <zlib.h>

static struct isal_zstream s;
static uint8_t lb[ISAL_DEF_LVL3_DEFAULT];
static uint8_t in[1000], out[8192], dec[2000];

static size_t
compress_all(uint32_t chunk)
{
        s.next_in = in;
        s.avail_in = sizeof(in);
        s.end_of_stream = 1;
        s.flush = NO_FLUSH;
        do {
                s.next_out = out + s.total_out;
                s.avail_out = chunk;
                if (s.total_out + chunk > sizeof(out))
                        s.avail_out = sizeof(out) - s.total_out;
                if (isal_deflate(&s) != COMP_OK)
                        return 0;
        } while (s.internal_state.state != ZSTATE_END);
        return s.total_out;
}

static int
decodes(int gz, size_t n)
{
        z_stream z;
        memset(&z, 0, sizeof(z));
        inflateInit2(&z, gz == IGZIP_GZIP ? 31 : 15);
        z.next_in = out;
        z.avail_in = n;
        z.next_out = dec;
        z.avail_out = sizeof(dec);
        int r = inflate(&z, Z_FINISH);
        size_t got = sizeof(dec) - z.avail_out;
        inflateEnd(&z);
        return r == Z_STREAM_END && got == sizeof(in) && !memcmp(dec, in, sizeof(in));
}

int
main(void)
{
        int bad = 0;
        for (int i = 0; i < 1000; i++)
                in[i] = "abcdefgh hello world "[i % 21];
        for (int level = 0; level <= 3; level++)
                for (int gz = IGZIP_GZIP; gz <= IGZIP_ZLIB; gz += 2)
                        for (int big = 0; big <= 1; big++) {
                                uint32_t chunk = big ? 4096 : 100;
                                isal_deflate_init(&s);
                                s.level = level;
                                s.level_buf = level ? lb : NULL;
                                s.level_buf_size = level == 1   ? ISAL_DEF_LVL1_DEFAULT
                                                   : level == 2 ? ISAL_DEF_LVL2_DEFAULT
                                                   : level == 3 ? ISAL_DEF_LVL3_DEFAULT
                                                                : 0;
                                s.gzip_flag = gz;
                                size_t n1 = compress_all(chunk);
                                int ok1 = decodes(gz, n1);
                                int flag_after = s.gzip_flag;
                                /* "Performs the same action as isal_deflate_init, but does not
                                 * change user supplied input such as the level, flush type,
                                 * compression wrapper (like gzip), hufftables, and
                                 * end_of_stream_flag." */
                                isal_deflate_reset(&s);
                                size_t n2 = compress_all(chunk);
                                int ok2 = decodes(gz, n2);
                                printf("level %d gzip_flag=%d out chunks of %4u: stream 1 %3zu bytes "
                                       "%s; gzip_flag afterwards %d; after isal_deflate_reset stream "
                                       "2 %3zu bytes starts %02x %02x %s\n",
                                       level, gz, chunk, n1, ok1 ? "ok " : "BAD", flag_after, n2,
                                       out[0], out[1], ok2 ? "ok" : "DOES NOT DECODE (no header)");
                                if (!ok1 || !ok2 || flag_after != gz)
                                        bad++;
                        }
        if (bad) {
                printf("DEFECT: %d combinations\n", bad);
                return 1;
        }
        printf("ok\n");
        return 0;
}
