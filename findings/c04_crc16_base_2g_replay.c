/* Replay for the fix "crc16_t10dif_base and crc16_t10dif_copy_base stop after 2^31 bytes"; written by a defect-hunting sub-agent (H7); needs ~4 GiB of address space. */
// crc16_t10dif_base / crc16_t10dif_copy_base silently stop after 2^31 bytes.
// include/crc.h documents the length as "buffer length in bytes (64-bit data)" (uint64_t len).
#define _GNU_SOURCE
#include <stdio.h>
#include <stdint.h>
#include <string.h>
#include <sys/mman.h>
#include <unistd.h>
#include "crc.h"

uint16_t crc16_t10dif_01(uint16_t, const unsigned char *, uint64_t); /* global symbol of libisal.a */

int main(void)
{
	const uint64_t CH = 2 << 20, LEN = (1ULL << 31) + 17, MAP = LEN + 2 * CH - (LEN % CH);
	/* 2 GiB + 17 bytes of pseudo random data without using 2 GiB of RAM: one 2 MiB memfd mapped repeatedly */
	int fd = memfd_create("d", 0);
	if (fd < 0 || ftruncate(fd, CH)) { perror("memfd"); return 2; }
	uint8_t *r = mmap(NULL, CH, PROT_READ | PROT_WRITE, MAP_SHARED, fd, 0);
	uint64_t s = 0x1234567;
	for (uint64_t i = 0; i < CH; i++) { s = s * 6364136223846793005ULL + 1442695040888963407ULL; r[i] = s >> 56; }
	uint8_t *buf = mmap(NULL, MAP, PROT_NONE, MAP_PRIVATE | MAP_ANONYMOUS | MAP_NORESERVE, -1, 0);
	if (buf == MAP_FAILED) { perror("mmap"); return 2; }
	for (uint64_t o = 0; o < MAP; o += CH)
		if (mmap(buf + o, CH, PROT_READ, MAP_SHARED | MAP_FIXED, fd, 0) == MAP_FAILED) { perror("mmap fixed"); return 2; }
	uint8_t *dst = mmap(NULL, MAP, PROT_READ | PROT_WRITE, MAP_PRIVATE | MAP_ANONYMOUS | MAP_NORESERVE, -1, 0);
	if (dst == MAP_FAILED) { perror("mmap dst"); return 2; }

	int bad = 0;
	const uint16_t seed = 0x1234;

	/* expected value: the same base routine fed in 1 GiB pieces (each result is the next seed) */
	uint16_t want = seed;
	for (uint64_t o = 0; o < LEN; o += 1ULL << 30)
		want = crc16_t10dif_base(want, buf + o, LEN - o < (1ULL << 30) ? LEN - o : 1ULL << 30);

	uint16_t whole = crc16_t10dif_base(seed, buf, LEN);
	uint16_t first2g = crc16_t10dif_base(seed, buf, 1ULL << 31);
	uint16_t simd = crc16_t10dif_01(seed, buf, LEN);
	printf("len = 2^31+17 = %llu\n", (unsigned long long) LEN);
	printf("crc16_t10dif_base, one call          : %04x\n", whole);
	printf("crc16_t10dif_base, chained 1 GiB calls: %04x\n", want);
	printf("crc16_t10dif_01 (PCLMUL kernel)      : %04x\n", simd);
	printf("crc16_t10dif_base over first 2^31 B  : %04x\n", first2g);
	if (whole != want) {
		printf("DEFECT: one call over the whole buffer differs from the piecewise value%s\n",
		       whole == first2g ? " and equals the CRC of the first 2^31 bytes only (last 17 bytes ignored)" : "");
		bad = 1;
	}

	uint16_t c = crc16_t10dif_copy_base(seed, dst, buf, LEN);
	uint64_t copied = 0;
	while (copied < LEN && dst[copied] == buf[copied]) copied++;
	printf("crc16_t10dif_copy_base, one call     : %04x, leading bytes copied correctly: %llu of %llu\n", c,
	       (unsigned long long) copied, (unsigned long long) LEN);
	if (c != want || copied != LEN) {
		printf("DEFECT: copy form returns a wrong CRC and/or leaves the tail of the destination uncopied\n");
		bad = 1;
	}
	return bad;
}
