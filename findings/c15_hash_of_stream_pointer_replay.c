/* Replay for the fix "level 1/2 body hashed the stream pointer instead of input data at the first byte"; written by a defect-hunting sub-agent (H8; also noticed by five benign-round agents). */
/* finding 1: level 1/2 output of isal_deflate() depends on the ADDRESS of the isal_zstream object.
 *
 * Same input, same parameters, same call sequence (38 bytes with NO_FLUSH, then the remaining 44
 * bytes with end_of_stream), zeroed objects and level buffers - only the place where the
 * isal_zstream lives differs (by multiples of 64 KiB).  The compressed bytes differ. */
#define _GNU_SOURCE
#include <stdio.h>
#include <stdlib.h>
#include <string.h>
#include <stdint.h>
#include <sys/mman.h>
#include "igzip_lib.h"

static const char input[] = "bbbcccccccccccccccccccddccddddddbbbcccccccccccaaacccccaaaccccaaaaaabbbb"
                            "bbbcccccccc"; /* 82 bytes */
#define N1 38
#define NPOS 2048

static uint8_t lb[ISAL_DEF_LVL2_MIN] __attribute__((aligned(64)));

static uint32_t
comp(struct isal_zstream *st, int level, uint8_t *out, uint32_t outsz)
{
        uint32_t n = sizeof(input) - 1;
        memset(st, 0, sizeof *st);
        memset(lb, 0, sizeof lb);
        memset(out, 0, outsz);
        isal_deflate_init(st);
        st->level = level;
        st->level_buf = lb;
        st->level_buf_size = level == 1 ? ISAL_DEF_LVL1_MIN : ISAL_DEF_LVL2_MIN;
        st->next_out = out;
        st->avail_out = outsz;
        st->next_in = (uint8_t *) input;
        st->avail_in = N1;
        st->end_of_stream = 0;
        st->flush = NO_FLUSH;
        if (isal_deflate(st) != COMP_OK || st->avail_in)
                exit(3);
        st->next_in = (uint8_t *) input + N1;
        st->avail_in = n - N1;
        st->end_of_stream = 1;
        if (isal_deflate(st) != COMP_OK || st->internal_state.state != ZSTATE_END)
                exit(4);
        return st->total_out;
}

int
main(void)
{
        size_t objsz = (sizeof(struct isal_zstream) + 65535) & ~(size_t) 65535;
        size_t total = objsz + NPOS * 65536;
        /* fixed address hint so that the run is the same every time; any address works */
        uint8_t *arena = mmap((void *) 0x200000000000ULL, total, PROT_READ | PROT_WRITE,
                              MAP_PRIVATE | MAP_ANONYMOUS, -1, 0);
        if (arena == MAP_FAILED) {
                perror("mmap");
                return 2;
        }
        int bad = 0;
        for (int level = 1; level <= 2; level++) {
                uint8_t ref[256], out[256];
                uint32_t lref = comp((struct isal_zstream *) arena, level, ref, sizeof ref);
                int ndiff = 0, first = -1;
                uint32_t lfirst = 0;
                uint8_t ofirst[256];
                for (int k = 1; k < NPOS; k++) {
                        uint32_t l = comp((struct isal_zstream *) (arena + 65536 * (size_t) k),
                                          level, out, sizeof out);
                        madvise(arena + 65536 * (size_t) k, objsz, MADV_DONTNEED);
                        if (l != lref || memcmp(ref, out, l)) {
                                if (first < 0) {
                                        first = k;
                                        lfirst = l;
                                        memcpy(ofirst, out, l);
                                }
                                ndiff++;
                        }
                }
                printf("level %d: object at %p gives %u bytes; %d of %d other object addresses give "
                       "different bytes\n",
                       level, (void *) arena, lref, ndiff, NPOS - 1);
                if (ndiff) {
                        bad = 1;
                        printf("  at %p:", (void *) arena);
                        for (uint32_t i = 0; i < lref; i++)
                                printf(" %02x", ref[i]);
                        printf("\n  at %p:", (void *) (arena + 65536 * (size_t) first));
                        for (uint32_t i = 0; i < lfirst; i++)
                                printf(" %02x", ofirst[i]);
                        printf("\n");
                }
        }
        if (bad)
                printf("DEFECT: compressed output depends on the address of the isal_zstream "
                       "object\n");
        else
                printf("ok: output identical for all object addresses\n");
        return bad;
}
