/* Replay for the defect fixed in /repo by "fix: igzip: isal_inflate loses gzip/zlib header state when the header is split across calls".
 *
 * isal_inflate() parses the gzip / zlib wrapper with isal_read_gzip_header() / isal_read_zlib_header() into a header structure that
 * is a local of isal_inflate() and is re-initialised on every call.  The readers are resumable, but keep part of what they need to
 * resume IN that structure (gzip: the flags byte, the extra-field length, the running header crc; zlib: the dictionary flag that
 * isal_inflate() tests after the reader returns).  When a call boundary falls inside the header:
 *   gzip  - the flags are 0 again, so the remaining optional fields (name, comment, extra, header crc) are taken for deflate data:
 *           a valid member is rejected or garbage is produced;
 *   zlib  - a stream with FDICT whose 4-byte dictionary id is completed by a later call never yields ISAL_NEED_DICT: decoding goes
 *           on without the dictionary.
 * Handing the same bytes over in one call works.
 *
 * build: gcc -I<repo>/include c19_inflate_header_resume_replay.c <libisal.a> -o replay ; exit status 1 = defect present */
#include <stdio.h>
#include <string.h>
#include <stdint.h>
#include "igzip_lib.h"

static uint8_t msg[] = "the quick brown fox jumps over the lazy dog, the quick brown fox";
static uint8_t comp[4096], out[4096];

static int
inflate_pieces(uint8_t *src, uint32_t len, uint32_t piece, int crc_flag, uint32_t *produced)
{
        struct inflate_state st;
        uint32_t pos = 0;
        int r = 0;

        isal_inflate_init(&st);
        st.crc_flag = crc_flag;
        st.next_out = out;
        st.avail_out = sizeof(out);
        while (pos < len && st.block_state != ISAL_BLOCK_FINISH) {
                uint32_t c = len - pos < piece ? len - pos : piece;
                st.next_in = src + pos;
                st.avail_in = c;
                pos += c;
                r = isal_inflate(&st);
                if (r != ISAL_DECOMP_OK)
                        break;
        }
        *produced = st.total_out;
        if (r == ISAL_DECOMP_OK && st.block_state != ISAL_BLOCK_FINISH)
                return 100; /* unfinished */
        return r;
}

int
main(void)
{
        struct isal_zstream s;
        struct isal_gzip_header gh;
        struct isal_zlib_header zh;
        uint32_t hdr, produced, piece;
        int bad = 0, r;

        /* ---- gzip member with a name and a header crc */
        isal_deflate_init(&s);
        s.gzip_flag = IGZIP_GZIP_NO_HDR;
        s.next_out = comp;
        s.avail_out = sizeof(comp);
        isal_gzip_header_init(&gh);
        gh.name = "file.txt";
        gh.name_buf_len = 9;
        gh.hcrc = 1;
        if (isal_write_gzip_header(&s, &gh) != 0)
                return 2;
        hdr = s.total_out;
        s.next_in = msg;
        s.avail_in = sizeof(msg);
        s.end_of_stream = 1;
        if (isal_deflate(&s) != COMP_OK || s.internal_state.state != ZSTATE_END)
                return 2;
        printf("gzip member: %u header bytes (FNAME, FHCRC), %u bytes in all\n", hdr, s.total_out);
        for (piece = s.total_out; piece >= 1; piece = piece > 11 ? 11 : piece - 1) {
                r = inflate_pieces(comp, s.total_out, piece, ISAL_GZIP, &produced);
                int ok = r == 0 && produced == sizeof(msg) && !memcmp(out, msg, sizeof(msg));
                if (piece == s.total_out || piece == 11 || piece == 1 || !ok)
                        printf("  pieces of %4u bytes: ret %d, %u bytes out%s\n", piece, r, produced, ok ? "" : "   <-- DEFECT");
                bad |= !ok;
                if (piece == 1)
                        break;
        }

        /* ---- zlib stream that asks for a preset dictionary */
        isal_deflate_init(&s);
        s.gzip_flag = IGZIP_ZLIB_NO_HDR;
        s.next_out = comp;
        s.avail_out = sizeof(comp);
        isal_zlib_header_init(&zh);
        zh.info = 7;
        zh.dict_flag = 1;
        zh.dict_id = 0x11223344;
        if (isal_write_zlib_header(&s, &zh) != 0)
                return 2;
        hdr = s.total_out;
        s.next_in = msg;
        s.avail_in = sizeof(msg);
        s.end_of_stream = 1;
        if (isal_deflate(&s) != COMP_OK)
                return 2;
        printf("zlib stream with FDICT: %u header bytes\n", hdr);
        for (piece = s.total_out; piece >= 1; piece = piece > 3 ? 3 : piece - 1) {
                r = inflate_pieces(comp, s.total_out, piece, ISAL_ZLIB, &produced);
                int ok = r == ISAL_NEED_DICT && produced == 0;
                printf("  pieces of %4u bytes: ret %d (ISAL_NEED_DICT is %d), %u bytes out%s\n", piece, r, ISAL_NEED_DICT, produced,
                       ok ? "" : "   <-- DEFECT");
                bad |= !ok;
                if (piece == 1)
                        break;
        }
        printf(bad ? "DEFECT: the result depends on where the calls cut the header\n" : "ok: same result for every chunking\n");
        return bad;
}
