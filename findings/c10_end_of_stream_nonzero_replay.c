/* Replay for the fix "level 0 finish only recognised end_of_stream == 1"; written by a defect-hunting sub-agent (H5); needs -lz as decoder. */
/*
 * finding_2: level 0 only honours end_of_stream == 1, although the field is documented as
 * "non-zero if this is the last input buffer".  With any other non-zero value
 *   - isal_deflate() never reaches ZSTATE_END: every further call appends another
 *     "final block + sync flush" pair, for ever (levels 1-3 finish in one call);
 *   - isal_deflate_stateless(flush = FULL_FLUSH) returns COMP_OK for a gzip stream that has no
 *     trailer and carries garbage after the final block.
 * exit status 1 when the defect shows.
 */
#include <stdio.h>
#include <stdlib.h>
#include <string.h>
#include <stdint.h>
#include <zlib.h>
#include "igzip_lib.h"

#define N 1000
static uint8_t in[N], out[1 << 20], dec[4 * N];
static uint8_t lvl_buf[ISAL_DEF_LVL1_DEFAULT] __attribute__((aligned(64)));

static int gunzip_ok(uint8_t *p, uint32_t n)
{
        z_stream z;
        int r;
        memset(&z, 0, sizeof(z));
        inflateInit2(&z, 31);
        z.next_in = p;
        z.avail_in = n;
        z.next_out = dec;
        z.avail_out = sizeof(dec);
        r = inflate(&z, Z_FINISH);
        printf("      zlib: ret=%d (%s), %lu bytes out, %u input bytes left\n", r,
               r == Z_STREAM_END ? "Z_STREAM_END" : z.msg ? z.msg : "not finished", z.total_out, z.avail_in);
        r = (r == Z_STREAM_END && z.avail_in == 0 && z.total_out == N && !memcmp(dec, in, N));
        inflateEnd(&z);
        return r;
}

static int streaming(int level, int eos)
{
        struct isal_zstream s;
        int calls = 0, r;
        isal_deflate_init(&s);
        s.level = level;
        if (level) {
                s.level_buf = lvl_buf;
                s.level_buf_size = sizeof(lvl_buf);
        }
        s.gzip_flag = IGZIP_GZIP;
        s.next_in = in;
        s.avail_in = N;
        s.end_of_stream = eos;
        s.flush = NO_FLUSH;
        s.next_out = out;
        s.avail_out = sizeof(out);
        do {
                r = isal_deflate(&s);
                calls++;
        } while (r == COMP_OK && s.internal_state.state != ZSTATE_END && calls < 2000 && s.avail_out > 1000);
        printf("   isal_deflate level %d end_of_stream=%d: %d call(s), state %s, %u bytes written\n", level, eos, calls,
               s.internal_state.state == ZSTATE_END ? "ZSTATE_END" : "NOT ZSTATE_END", s.total_out);
        if (s.internal_state.state != ZSTATE_END)
                return 1;
        return !gunzip_ok(out, s.total_out);
}

static int oneshot(int level, int eos)
{
        struct isal_zstream s;
        int r;
        isal_deflate_stateless_init(&s);
        s.level = level;
        if (level) {
                s.level_buf = lvl_buf;
                s.level_buf_size = sizeof(lvl_buf);
        }
        s.gzip_flag = IGZIP_GZIP;
        s.next_in = in;
        s.avail_in = N;
        s.end_of_stream = eos;
        s.flush = FULL_FLUSH; /* with NO_FLUSH the library overwrites end_of_stream with 1 itself */
        s.next_out = out;
        s.avail_out = sizeof(out);
        r = isal_deflate_stateless(&s);
        printf("   isal_deflate_stateless level %d end_of_stream=%d FULL_FLUSH: ret=%d, %u bytes\n", level, eos, r,
               s.total_out);
        if (r != COMP_OK)
                return 0; /* an error code would be acceptable */
        return !gunzip_ok(out, s.total_out);
}

int main(void)
{
        int i, bad = 0;
        srand(2);
        for (i = 0; i < N; i++)
                in[i] = "abcdefgh"[rand() % 8];
        printf("control, end_of_stream = 1:\n");
        bad |= streaming(0, 1) | streaming(1, 1) | oneshot(0, 1) | oneshot(1, 1);
        printf("control, level 1, end_of_stream = 2:\n");
        bad |= streaming(1, 2) | oneshot(1, 2);
        if (bad) {
                printf("controls failed - harness problem\n");
                return 2;
        }
        printf("level 0, end_of_stream = 2 (non-zero => last buffer, per igzip_lib.h):\n");
        bad |= streaming(0, 2);
        bad |= oneshot(0, 2);
        printf(bad ? "DEFECT REPRODUCED\n" : "no defect seen\n");
        return bad;
}
