/* Replay for the fix "one-shot inflate answers a full output buffer with ISAL_INVALID_LOOKBACK"; written by a defect-hunting sub-agent (H2); links zlib only to build the test stream. */
/*
 * ISA-L igzip: isal_inflate_stateless() reports ISAL_INVALID_LOOKBACK for a perfectly valid
 * stream when the output buffer is too small, instead of the documented ISAL_OUT_OVERFLOW
 * ("if output buffer ran out of space").
 *
 * The stream below is: one non-final dynamic block  'a' 'b' <match len 3, dist 2> EOB,
 * followed by an empty final stored block.  It decodes to "ababa" (5 bytes); zlib accepts it.
 * The literal/length codes are 2 bits long, so ISA-L's multi-symbol lookup table returns
 * the three symbols  'a','b',<len 3>  from a single lookup.
 */
#include <stdio.h>
#include <stdlib.h>
#include <string.h>
#include <stdint.h>
#include <zlib.h>
#include "igzip_lib.h"

static uint8_t strm[64];
static size_t slen;
static uint64_t bb;
static int bc;
static void put(uint32_t v, int n) /* LSB first */
{
        bb |= (uint64_t) v << bc;
        bc += n;
        while (bc >= 8) {
                strm[slen++] = bb & 0xff;
                bb >>= 8;
                bc -= 8;
        }
}
static void huff(uint32_t code, int len) /* Huffman codes go MSB first */
{
        for (int i = len - 1; i >= 0; i--)
                put((code >> i) & 1, 1);
}

static void build(void)
{
        /* code length code: symbols 0,1,2,18 all with 2-bit codes: 0->00 1->01 2->10 18->11 */
        static const uint8_t order[19] = { 16, 17, 18, 0, 8, 7, 9, 6, 10, 5, 11, 4, 12, 3, 13, 2, 14, 1, 15 };
        uint8_t cll[19] = { 0 };
        cll[0] = cll[1] = cll[2] = cll[18] = 2;
        put(0, 1);  /* BFINAL = 0 */
        put(2, 2);  /* dynamic */
        put(1, 5);  /* HLIT: 258 codes */
        put(1, 5);  /* HDIST: 2 codes */
        put(15, 4); /* HCLEN: 19 */
        for (int i = 0; i < 19; i++)
                put(cll[order[i]], 3);
#define CL0  huff(0, 2)
#define CL1  huff(1, 2)
#define CL2  huff(2, 2)
#define CL18(n) do { huff(3, 2); put((n) - 11, 7); } while (0)
        CL18(97);        /* symbols 0..96: no code */
        CL2; CL2;        /* 'a', 'b': 2 bits */
        CL18(138); CL18(19); /* 99..255: no code */
        CL2; CL2;        /* 256 (EOB), 257 (length 3): 2 bits */
        CL0; CL1;        /* distance symbol 0: none, symbol 1 (distance 2): 1 bit */
        /* canonical codes: 'a'=00 'b'=01 EOB=10 len3=11; distance 2 = 0 */
        huff(0, 2);      /* 'a' */
        huff(1, 2);      /* 'b' */
        huff(3, 2);      /* length 3 */
        huff(0, 1);      /* distance 2 */
        huff(2, 2);      /* EOB */
        put(1, 1);       /* BFINAL = 1 */
        put(0, 2);       /* stored */
        while (bc)
                put(0, 1);
        put(0x0000, 16);
        put(0xffff, 16);
}

int main(void)
{
        int fail = 0;
        build();

        /* reference: zlib accepts the stream and gives "ababa" */
        uint8_t ref[16];
        z_stream z;
        memset(&z, 0, sizeof(z));
        inflateInit2(&z, -15);
        z.next_in = strm;
        z.avail_in = slen;
        z.next_out = ref;
        z.avail_out = sizeof(ref);
        int zr = inflate(&z, Z_FINISH);
        printf("zlib: %s, %lu bytes: %.*s\n", zr == Z_STREAM_END ? "Z_STREAM_END" : "error", z.total_out,
               (int) z.total_out, ref);
        inflateEnd(&z);

        struct inflate_state *st = malloc(sizeof(*st));
        for (uint32_t cap = 0; cap <= 6; cap++) {
                uint8_t out[16];
                memset(out, '.', sizeof(out));
                isal_inflate_init(st);
                st->next_in = strm;
                st->avail_in = slen;
                st->next_out = out;
                st->avail_out = cap;
                int ret = isal_inflate_stateless(st);
                int want = cap < 5 ? ISAL_OUT_OVERFLOW : ISAL_DECOMP_OK;
                printf("isal_inflate_stateless avail_out=%u: ret=%d (%s), wrote %ld bytes  %s\n", cap, ret,
                       ret == ISAL_OUT_OVERFLOW      ? "ISAL_OUT_OVERFLOW"
                       : ret == ISAL_INVALID_LOOKBACK ? "ISAL_INVALID_LOOKBACK"
                       : ret == 0                     ? "ISAL_DECOMP_OK"
                                                      : "other",
                       (long) (st->next_out - out), ret == want ? "" : "<-- WRONG");
                if (ret != want)
                        fail = 1;
        }
        free(st);
        printf("%s\n", fail ? "FAIL: defect present" : "PASS");
        return fail;
}
