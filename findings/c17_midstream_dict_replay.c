/* Replay for the defect fixed in /repo by "fix: igzip: dictionary set after a flush in mid stream matched against data in front of
 * the dictionary" (found by a defect-hunting sub-agent, H5; this is a zlib-free version of its reproducer).
 *
 * igzip_lib.h allows isal_deflate_set_dict() / isal_deflate_reset_dict() "after completing a SYNC_FLUSH or FULL_FLUSH and before the
 * next call to isal_deflate".  Hash-table entries are stream positions mod 64K; the tables were cleared to position 65535 (= -1, the last
 * dictionary byte only when total_in == 0) and a processed dictionary was installed with positions relative to total_in == 0.  With
 * total_in = 315 and a 300-byte dictionary the first candidate for a run of zero bytes is "distance 316": 16 bytes in front of the
 * dictionary, i.e. in front of state->buffer, where the (zero-filled) fields of the stream happen to match.
 *
 * Part B of the stream (everything after the full flush) is decoded on its own with the same dictionary: it must give back part B of the
 * input.  build: gcc -I<repo>/include c17_midstream_dict_replay.c <libisal.a> -o replay ; exit status 1 = defect present */
#include <stdio.h>
#include <string.h>
#include <stdint.h>
#include "igzip_lib.h"

static uint8_t a[315], b[64], dict[300], comp[4096], out[4096], lvl[ISAL_DEF_LVL3_DEFAULT];
static struct isal_dict pd;

static int
run(int level, int use_reset)
{
        static struct isal_zstream s;
        struct inflate_state st;
        uint32_t cut;
        int r;

        memset(&s, 0, sizeof(s));
        isal_deflate_init(&s);
        s.level = level;
        if (level) {
                s.level_buf = lvl;
                s.level_buf_size = level == 1 ? ISAL_DEF_LVL1_DEFAULT : level == 2 ? ISAL_DEF_LVL2_DEFAULT : ISAL_DEF_LVL3_DEFAULT;
        }
        s.flush = FULL_FLUSH;
        s.next_in = a;
        s.avail_in = sizeof(a);
        s.next_out = comp;
        s.avail_out = sizeof(comp);
        r = isal_deflate(&s);
        if (r != COMP_OK || s.avail_in != 0 || s.internal_state.state != ZSTATE_NEW_HDR)
                return 2;
        cut = s.total_out;
        if (use_reset) {
                if (isal_deflate_process_dict(&s, &pd, dict, sizeof(dict)) != COMP_OK)
                        return 2;
                r = isal_deflate_reset_dict(&s, &pd);
        } else
                r = isal_deflate_set_dict(&s, dict, sizeof(dict));
        if (r != COMP_OK)
                return 2;
        s.flush = NO_FLUSH;
        s.end_of_stream = 1;
        s.next_in = b;
        s.avail_in = sizeof(b);
        r = isal_deflate(&s);
        if (r != COMP_OK || s.internal_state.state != ZSTATE_END)
                return 2;

        isal_inflate_init(&st);
        isal_inflate_set_dict(&st, dict, sizeof(dict));
        st.next_in = comp + cut;
        st.avail_in = s.total_out - cut;
        st.next_out = out;
        st.avail_out = sizeof(out);
        r = isal_inflate(&st);
        if (r != ISAL_DECOMP_OK || st.total_out != sizeof(b) || memcmp(out, b, sizeof(b))) {
                printf("level %d, %s: part B decoded with the dictionary: ret %d, %u bytes, %s   <-- DEFECT\n", level,
                       use_reset ? "process_dict + reset_dict" : "set_dict", r, st.total_out,
                       r == ISAL_INVALID_LOOKBACK ? "a match reaches in front of the dictionary" : "wrong bytes");
                return 1;
        }
        printf("level %d, %s: ok\n", level, use_reset ? "process_dict + reset_dict" : "set_dict");
        return 0;
}

int
main(void)
{
        int level, bad = 0, i;

        for (i = 0; i < (int) sizeof(a); i++)
                a[i] = (uint8_t) (i * 7 + 1) | 1;
        for (i = 0; i < (int) sizeof(dict); i++)
                dict[i] = (uint8_t) (i * 13 + 5) | 1;
        memset(b, 0, 8); /* eight zero bytes: hash to an entry the dictionary did not set */
        for (i = 8; i < (int) sizeof(b); i++)
                b[i] = (uint8_t) (i * 11 + 3) | 1;
        for (level = 0; level <= 3; level++) {
                bad |= run(level, 0) == 1;
                bad |= run(level, 1) == 1;
        }
        printf(bad ? "DEFECT: a dictionary installed after a completed flush is not honoured\n" : "ok\n");
        return bad;
}
