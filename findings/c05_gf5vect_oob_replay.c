/* Replay of the out-of-bounds read in gf_5vect_dot_prod_avx512_gfni (C05/C03, rule P-EC-STORE).
 * Every buffer ends exactly at a page boundary followed by a PROT_NONE page.  The kernel reads 8 bytes at
 * coding[0]+0 and coding[0]+40 ("mov ptr,[dest1]" / "mov tmp,[dest1+5*8]" left over from the 6-vect kernel),
 * so for len < 48 it touches the guard page.  Needs an AVX-512+GFNI host (the kernel is called directly). */
#include <stdio.h>
#include <stdlib.h>
#include <string.h>
#include <signal.h>
#include <setjmp.h>
#include <sys/mman.h>
#include <unistd.h>
extern void gf_5vect_dot_prod_avx512_gfni(int len, int k, unsigned char *g_tbls, unsigned char **data, unsigned char **coding);
extern void gf_4vect_dot_prod_avx512_gfni(int len, int k, unsigned char *g_tbls, unsigned char **data, unsigned char **coding);
extern void ec_init_tables_gfni(int k, int rows, unsigned char *a, unsigned char *g_tbls);
static sigjmp_buf jb;
static void on_segv(int s) { siglongjmp(jb, 1); }
static unsigned char *guarded(size_t len) {
        long pg = sysconf(_SC_PAGESIZE);
        unsigned char *p = mmap(0, 2 * pg, PROT_READ | PROT_WRITE, MAP_PRIVATE | MAP_ANONYMOUS, -1, 0);
        mprotect(p + pg, pg, PROT_NONE);
        return p + pg - len;
}
int main(int argc, char **argv) {
        int len = argc > 1 ? atoi(argv[1]) : 16, rows = argc > 2 ? atoi(argv[2]) : 5, k = 2, i;
        unsigned char a[5 * 2], tbl[5 * 2 * 8], *data[2], *coding[5];
        for (i = 0; i < 10; i++) a[i] = i + 2;
        ec_init_tables_gfni(k, rows, a, tbl);
        for (i = 0; i < k; i++) { data[i] = guarded(len); memset(data[i], i + 1, len); }
        for (i = 0; i < rows; i++) coding[i] = guarded(len);
        signal(SIGSEGV, on_segv);
        if (sigsetjmp(jb, 1)) { printf("len=%d rows=%d: SIGSEGV (access outside the declared ranges)\n", len, rows); return 1; }
        if (rows == 5) gf_5vect_dot_prod_avx512_gfni(len, k, tbl, data, coding);
        else gf_4vect_dot_prod_avx512_gfni(len, k, tbl, data, coding);
        printf("len=%d rows=%d: ok\n", len, rows);
        return 0;
}
