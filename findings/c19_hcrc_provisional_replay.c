/* Replay for the fix "isal_read_gzip_header leaves a provisional header crc in the result"; written by a defect-hunting sub-agent (H3). */
/* finding 1: isal_read_gzip_header() reports a header crc (gz_hdr->hcrc != 0) for a header
 * that has NO FHCRC field, but only when the 10 fixed header bytes arrive in more than one call.
 * Reading the same bytes in one call leaves hcrc == 0.  A read -> write round trip therefore
 * produces different headers depending on how the input was chunked. */
#include <stdio.h>
#include <string.h>
#include "igzip_lib.h"

static int read_hdr(uint8_t *buf, uint32_t len, uint32_t first, struct isal_gzip_header *g)
{
        struct inflate_state st;
        int r;

        isal_inflate_init(&st);
        isal_gzip_header_init(g);
        st.next_in = buf;
        st.avail_in = first;
        r = isal_read_gzip_header(&st, g);
        if (first < len) {
                if (r != ISAL_END_INPUT)
                        return r;
                st.avail_in = len - first; /* next_in already points behind the first part */
                r = isal_read_gzip_header(&st, g);
        }
        return r;
}

int main(void)
{
        uint8_t hdr[64], again[64];
        struct isal_zstream s;
        struct isal_gzip_header h, one, split;
        uint32_t len, r, first, bad = 0;

        isal_gzip_header_init(&h);
        h.time = 0x11223344;
        h.os = 3;
        h.hcrc = 0; /* no header crc */
        isal_deflate_init(&s);
        s.next_out = hdr;
        s.avail_out = sizeof hdr;
        r = isal_write_gzip_header(&s, &h);
        len = s.total_out;
        printf("written header: ret %u, %u bytes, FLG byte 0x%02x (FHCRC bit clear)\n", r, len, hdr[3]);

        r = read_hdr(hdr, len, len, &one);
        printf("read in one call      : ret %d hcrc 0x%08x\n", (int) r, one.hcrc);
        for (first = 0; first < len; first++) {
                r = read_hdr(hdr, len, first, &split);
                printf("read split %2u + %2u    : ret %d hcrc 0x%08x%s\n", first, len - first, (int) r,
                       split.hcrc, split.hcrc != one.hcrc ? "   <-- differs" : "");
                if (r != 0 || split.hcrc != one.hcrc || split.time != one.time || split.os != one.os)
                        bad++;
        }

        /* consequence: feeding the recovered structure back to the writer */
        read_hdr(hdr, len, 4, &split);
        isal_deflate_init(&s);
        s.next_out = again;
        s.avail_out = sizeof again;
        isal_write_gzip_header(&s, &split);
        printf("round trip after split read: %u bytes, FLG 0x%02x (original %u bytes, FLG 0x%02x)\n",
               s.total_out, again[3], len, hdr[3]);

        if (bad) {
                printf("DEFECT: hcrc recovered from the same header bytes depends on the chunking (%u of %u "
                       "splits)\n",
                       bad, len);
                return 1;
        }
        printf("ok\n");
        return 0;
}
