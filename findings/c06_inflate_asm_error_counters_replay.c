/* Replay: asm inflate kernels leave avail_in / avail_out short by the loop's slop when the FAST loop detects an invalid look-back distance.
 * build: gcc -O1 -I/repo/include acct_replay.c <libisal.a> -o acct_replay */
#include <stdio.h>
#include <string.h>
#include <stdint.h>
#include "igzip_lib.h"
int main(void)
{
        /* fixed-Huffman block: BFINAL=1, BTYPE=01, literal 'a' x2?, no: first symbol = match len 3 dist 4 with only 1 byte of history */
        /* bits (LSB first): 1, 10 (btype 01 -> bits 1,0), literal 'A' (0x41 -> code 0x30+0x41=0x71, 8 bits MSB first), then len 257 (7 bits 0000001), dist code 3 (5 bits 00011 -> distance 4) */
        uint8_t in[64]; memset(in, 0, sizeof(in));
        int pos = 0;
#define PUT(b) do { if (b) in[pos >> 3] |= 1 << (pos & 7); pos++; } while (0)
        PUT(1); PUT(1); PUT(0);
        { int c = 0x30 + 0x41; for (int k = 7; k >= 0; k--) PUT((c >> k) & 1); }
        { int c = 1; for (int k = 6; k >= 0; k--) PUT((c >> k) & 1); }
        { int c = 3; for (int k = 4; k >= 0; k--) PUT((c >> k) & 1); }
        uint8_t out[1000];
        struct inflate_state st;
        int bad = 0;
        isal_inflate_init(&st);
        st.next_in = in; st.avail_in = sizeof(in); st.next_out = out; st.avail_out = sizeof(out);
        int ret = isal_inflate_stateless(&st);
        long din = (long)(st.next_in - in) + st.avail_in, dout = (long)(st.next_out - out) + st.avail_out;
        printf("isal_inflate_stateless ret=%d  next_in+avail_in=%ld (expected %zu)  next_out+avail_out=%ld (expected %zu)\n", ret, din, sizeof(in), dout, sizeof(out));
        if (din != (long)sizeof(in) || dout != (long)sizeof(out)) bad = 1;
        puts(bad ? "FAIL: counters out of step after the error return" : "PASS");
        return bad;
}
