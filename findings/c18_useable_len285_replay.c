/* Replay for the defect fixed in /repo by "fix: igzip: are_hufftables_useable ignores the code of length symbol 285".
 * Written by a defect-hunting sub-agent (H6), decoder swapped for isal_inflate so that it builds without zlib.
 * build: gcc -O1 -I<repo>/include c18_useable_len285_replay.c <libisal.a> -o replay ; prints "DEFECT SHOWN" when present */
/*
 * finding 1: isal_create_hufftables() accepts a code in which literal + length-258 + distance
 * needs 58 bits; the level-0 encoder writes those three codes with one 64-bit bit-buffer
 * operation (limit: 56 bits) and emits a corrupt deflate stream.
 *
 * Build: see build.sh.  Exit status 1 when the defect shows.
 */
#include <stdio.h>
#include <stdlib.h>
#include <string.h>
#include <stdint.h>
#include "igzip_lib.h"

static int
inflate_raw(const uint8_t *in, size_t inlen, uint8_t *out, size_t cap, size_t *outlen)
{
        /* the library's own inflate as the decoder (the agent's original used zlib; both reject the stream) */
        struct inflate_state st;
        int r;
        isal_inflate_init(&st);
        st.next_in = (uint8_t *) in;
        st.avail_in = (uint32_t) inlen;
        st.next_out = out;
        st.avail_out = (uint32_t) cap;
        r = isal_inflate(&st);
        *outlen = st.total_out;
        if (r == 0 && st.block_state != ISAL_BLOCK_FINISH)
                r = -100;
        return r;
}

int
main(void)
{
        static struct isal_huff_histogram h; /* zeroed */
        static struct isal_hufftables t;
        static uint8_t data[32768], comp[65536], dec[32768];
        const int X = 0x00; /* a literal that is (almost) never expected */
        int i, defect = 0;

        /* A perfectly legal histogram: everything was seen at least once except literal 0x00 and
         * the length-258 symbol (285); length symbols, EOB and a few literals are frequent;
         * near distances are much more frequent than far ones (Fibonacci-like). */
        for (i = 0; i < ISAL_DEF_LIT_LEN_SYMBOLS; i++)
                h.lit_len_histogram[i] = 1;
        h.lit_len_histogram[X] = 0;
        h.lit_len_histogram[285] = 0;
        for (i = 256; i < 285; i++)
                h.lit_len_histogram[i] = 1 << 20;
        for (i = 'a'; i <= 'p'; i++)
                h.lit_len_histogram[i] = 1 << 20;
        h.lit_len_histogram['A'] = 1 << 20;
        {
                uint64_t a = 1, b = 1, c;
                for (i = 29; i >= 0; i--) {
                        h.dist_histogram[i] = a;
                        c = a + b;
                        a = b;
                        b = c;
                }
        }
        if (isal_create_hufftables(&t, &h) != 0) {
                printf("isal_create_hufftables refused the histogram (that would be acceptable)\n");
                return 0;
        }

        /* what the table says */
        int lit_bits = t.lit_table_sizes[X];
        int len258_bits = t.len_table[258 - 3] & 0x1f; /* code length + extra bits for length 258 */
        int dist_bits = t.dcodes_sizes[29 - IGZIP_DECODE_OFFSET] + 13; /* dist symbol 29: 13 extra */
        printf("literal 0x%02x: %d bits, length 258: %d bits, distance 24577..32768: %d bits -> %d bits "
               "for one literal+length+distance group (encoder limit is 56)\n",
               X, lit_bits, len258_bits, dist_bits, lit_bits + len258_bits + dist_bits);
        if (lit_bits + len258_bits + dist_bits > 56) {
                printf("DEFECT (table): accepted code is too long for the encoder's bit buffer\n");
                defect = 1;
        }

        /* Now compress data that uses exactly that group: <P> <16500 x 'A'> <0x00> <P> <2000 x 'A'>,
         * P = 400 pseudo random bytes out of 'a'..'p'. Try 16 bit alignments by prepending 0..15
         * literals. */
        for (int pre = 0; pre < 16; pre++) {
                int n = 0;
                uint32_t x = 12345;
                for (i = 0; i < pre; i++)
                        data[n++] = 'a' + (i * 7 + 3) % 16;
                int pstart = n;
                for (i = 0; i < 400; i++) {
                        x = x * 1103515245 + 12345;
                        data[n++] = 'a' + ((x >> 16) & 15);
                }
                memset(data + n, 'A', 16500);
                n += 16500;
                data[n++] = X;
                memcpy(data + n, data + pstart, 400);
                n += 400;
                memset(data + n, 'A', 2000);
                n += 2000;

                struct isal_zstream s;
                isal_deflate_init(&s);
                s.level = 0;
                if (isal_deflate_set_hufftables(&s, &t, IGZIP_HUFFTABLE_CUSTOM) != COMP_OK) {
                        printf("set_hufftables failed\n");
                        return 2;
                }
                s.end_of_stream = 1;
                s.flush = NO_FLUSH;
                s.next_in = data;
                s.avail_in = n;
                s.next_out = comp;
                s.avail_out = sizeof comp;
                int r = isal_deflate(&s);
                size_t outlen = 0;
                int zr = inflate_raw(comp, s.total_out, dec, sizeof dec, &outlen);
                int ok = (r == COMP_OK && zr == 0 && outlen == (size_t) n && !memcmp(dec, data, n));
                printf("prefix %2d: isal_deflate=%d, %u bytes out; inflate=%d, %zu of %d bytes "
                       "recovered: %s\n",
                       pre, r, s.total_out, zr, outlen, n, ok ? "ok" : "CORRUPT STREAM");
                if (!ok)
                        defect = 1;
        }
        printf(defect ? "DEFECT SHOWN\n" : "no defect\n");
        return defect;
}
