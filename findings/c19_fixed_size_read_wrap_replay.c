/* Replay for fix fc3f6be (fixed_size_read 32-bit wrap), written by a defect-hunting sub-agent (H3).  build: gcc -O1 -I<repo>/include <this> <libisal.a> */
/* finding 2: fixed_size_read() (igzip_inflate.c) adds avail_in and tmp_in_size in 32 bits.
 * When a few bytes of a fixed-size field (gzip/zlib header base, XLEN, FHCRC, DICTID, gzip/zlib
 * trailer) were buffered by the previous call and the next call passes avail_in >= 2^32 - buffered,
 * the sum wraps, the "not enough input" branch is taken and memcpy() copies avail_in (~4 GiB)
 * bytes into the 328 byte tmp_in_buffer inside struct inflate_state.
 *
 * Each scenario runs in a child process; exit status 1 if any child is killed by a signal. */
#include <stdio.h>
#include <stdlib.h>
#include <string.h>
#include <unistd.h>
#include <sys/mman.h>
#include <sys/wait.h>
#include "igzip_lib.h"

static uint8_t *big; /* 4 GiB of readable address space (never touched pages cost nothing) */
static uint8_t gz[256];
static uint32_t gl;

static void scenario(int k)
{
        struct inflate_state *st = malloc(sizeof *st);
        struct isal_gzip_header g;
        struct isal_zlib_header z;
        uint8_t out[256];
        int r = 0;

        isal_inflate_init(st);
        st->next_out = out;
        st->avail_out = sizeof out;
        switch (k) {
        case 0: /* isal_read_gzip_header: 3 header bytes, then the rest of a 4 GiB - 2 buffer */
                isal_gzip_header_init(&g);
                memcpy(big, gz, gl);
                st->next_in = big;
                st->avail_in = 3;
                r = isal_read_gzip_header(st, &g);
                printf("  first call ret %d (ISAL_END_INPUT), tmp_in_size %d\n", r, st->tmp_in_size);
                fflush(stdout);
                st->avail_in = 0xFFFFFFFEu;
                r = isal_read_gzip_header(st, &g);
                break;
        case 1: /* isal_read_zlib_header: 1 byte, then 4 GiB - 1 */
                isal_zlib_header_init(&z);
                big[0] = 0x78;
                big[1] = 0x9c;
                st->next_in = big;
                st->avail_in = 1;
                r = isal_read_zlib_header(st, &z);
                printf("  first call ret %d (ISAL_END_INPUT), tmp_in_size %d\n", r, st->tmp_in_size);
                fflush(stdout);
                st->avail_in = 0xFFFFFFFFu;
                r = isal_read_zlib_header(st, &z);
                break;
        case 2: /* isal_inflate, gzip trailer split: all but the last 5 bytes, then 4 GiB - 1 */
                memcpy(big, gz, gl);
                st->crc_flag = ISAL_GZIP;
                st->next_in = big;
                st->avail_in = gl - 5;
                r = isal_inflate(st);
                printf("  first call ret %d block_state %d (ISAL_CHECKSUM_CHECK=%d), tmp_in_size %d\n", r,
                       st->block_state, ISAL_CHECKSUM_CHECK, st->tmp_in_size);
                fflush(stdout);
                st->avail_in = 0xFFFFFFFFu;
                r = isal_inflate(st);
                break;
        }
        printf("  second call returned %d, block_state %d\n", r, st->block_state);
        exit(0);
}

int main(void)
{
        uint8_t src[100];
        struct isal_zstream s;
        int k, bad = 0;

        memset(src, 'x', sizeof src);
        isal_deflate_stateless_init(&s);
        s.gzip_flag = IGZIP_GZIP;
        s.end_of_stream = 1;
        s.next_in = src;
        s.avail_in = sizeof src;
        s.next_out = gz;
        s.avail_out = sizeof gz;
        if (isal_deflate_stateless(&s) != COMP_OK)
                return 2;
        gl = s.total_out;

        big = mmap(NULL, (size_t) 1 << 32, PROT_READ | PROT_WRITE,
                   MAP_PRIVATE | MAP_ANONYMOUS | MAP_NORESERVE, -1, 0);
        if (big == MAP_FAILED) {
                perror("mmap 4 GiB");
                return 2;
        }
        for (k = 0; k < 3; k++) {
                static const char *name[] = { "isal_read_gzip_header, 3 bytes then avail_in=0xFFFFFFFE",
                                              "isal_read_zlib_header, 1 byte then avail_in=0xFFFFFFFF",
                                              "isal_inflate(ISAL_GZIP), trailer split, then "
                                              "avail_in=0xFFFFFFFF" };
                int status;
                pid_t pid;

                printf("scenario %d: %s\n", k, name[k]);
                fflush(stdout);
                pid = fork();
                if (pid == 0)
                        scenario(k);
                waitpid(pid, &status, 0);
                if (WIFSIGNALED(status)) {
                        printf("  DEFECT: killed by signal %d (out of bounds write into/after "
                               "state->tmp_in_buffer)\n",
                               WTERMSIG(status));
                        bad++;
                } else
                        printf("  child exited normally\n");
        }
        return bad ? 1 : 0;
}
