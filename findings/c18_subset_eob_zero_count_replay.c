#include <stdio.h>
#include <string.h>
#include <stdint.h>
#include "igzip_lib.h"
int main(void)
{
        struct isal_huff_histogram h; struct isal_hufftables t;
        int bad = 0;
        for (int variant = 0; variant < 4; variant++) {
                memset(&h, 0, sizeof(h));
                if (variant >= 1) { h.lit_len_histogram['a'] = 100; h.lit_len_histogram['b'] = 50; }
                if (variant >= 2) { h.lit_len_histogram[257] = 10; h.dist_histogram[3] = 10; }
                if (variant == 3) { for (int i = 0; i < 256; i++) h.lit_len_histogram[i] = 1 + i; }
                /* lit_len_histogram[256] (end of block) stays 0 */
                isal_create_hufftables_subset(&t, &h);
                printf("variant %d: EOB code size %u (code %#x)\n", variant, t.lit_table_sizes[256], t.lit_table[256]);
                if (t.lit_table_sizes[256] == 0) bad = 1;
                /* try to compress something with it */
                uint8_t in[64], out[512], dec[128]; memset(in, 'a', sizeof(in));
                struct isal_zstream s; isal_deflate_stateless_init(&s); s.hufftables = &t;
                s.next_in = in; s.avail_in = sizeof(in); s.next_out = out; s.avail_out = sizeof(out); s.end_of_stream = 1; s.flush = NO_FLUSH;
                int r = isal_deflate_stateless(&s);
                struct inflate_state st; isal_inflate_init(&st); st.next_in = out; st.avail_in = s.total_out; st.next_out = dec; st.avail_out = sizeof(dec);
                int ri = isal_inflate_stateless(&st);
                printf("   deflate ret %d, %u bytes; inflate ret %d, %u bytes, match %d\n", r, s.total_out, ri, st.total_out, st.total_out == sizeof(in) && !memcmp(dec, in, sizeof(in)));
                if (variant >= 1 && (ri != 0 || st.total_out != sizeof(in))) bad = 1;
        }
        puts(bad ? "EOB-PROBLEM" : "OK");
        return bad;
}
